#!/bin/bash
# dev helper: build the harness, show only diagnostics of the harness itself
cd /verif/harness
cargo build --release --message-format=json 2>/dev/null | python3 -c '
import sys, json
ok = True
for line in sys.stdin:
    try: m = json.loads(line)
    except Exception: continue
    if m.get("reason") == "compiler-message" and "dsv" in m.get("package_id", ""):
        r = m["message"].get("rendered")
        if r: print(r, end="")
    if m.get("reason") == "build-finished":
        ok = m.get("success")
        print("build-finished success=%s" % ok)
sys.exit(0 if ok else 1)
'
