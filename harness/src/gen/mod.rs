//! generators: exhaustive enumerators and proptest strategies
pub mod dsets;
pub mod dsyms;
pub mod covers;
pub mod groups;
pub mod dsym3;
pub mod manifold;
pub mod cubic;
pub mod prismatic;
