//! G-DSYM3 — 3D symbols whose tiles and vertex figures are good spherical 2D symbols, by
//! backtracking over branching numbers with the harness's own curvature / orbifold oracle;
//! G-PRODUCT — known-euclidean 3D symbols as (euclidean 2D tiling) x (tiling of the line);
//! euclidean 2D symbols from the harness's own classification.
use crate::gen::dsets::dsets_of_size;
use crate::gen::dsyms::{assign, orbit_reps};
use crate::model::DS;
use crate::oracle::orb2;
use num_rational::Rational64 as Q;
use num_traits::{Signed, Zero};
use rayon::prelude::*;

/// the 2D symbol induced on a component of the index triple (a, a+1, a+2)
pub fn subsymbol2(ds: &DS, a: usize, comp: &[usize]) -> DS {
    let mut idx = vec![0usize; ds.size + 1];
    for (k, &d) in comp.iter().enumerate() {
        idx[d] = k + 1;
    }
    let mut s = DS::new(2, comp.len());
    for (k, &d) in comp.iter().enumerate() {
        for i in 0..=2 {
            s.op[i][k + 1] = idx[ds.op[a + i][d]];
        }
        for i in 0..2 {
            s.v[i][k + 1] = ds.v[a + i][d];
        }
    }
    s
}

/// are all (0,1,2)- and (1,2,3)-components good spherical 2D symbols?
pub fn has_spherical_links(ds: &DS) -> bool {
    for a in 0..=1 {
        for comp in ds.components(&[a, a + 1, a + 2]) {
            let s = subsymbol2(ds, a, &comp);
            if !orb2::curvature(&s).is_positive() {
                return false;
            }
            match orb2::invariants(&s) {
                Ok(o) if !o.is_bad() => {}
                _ => return false,
            }
        }
    }
    true
}

/// all branching assignments with values in `vals` on a 3D D-set such that tiles and vertex
/// figures are good spherical symbols
pub fn symbols_on(ds: &DS, vals: &[usize]) -> Vec<DS> {
    assert!(ds.dim == 3);
    let reps = orbit_reps(ds);
    let comps: Vec<(usize, Vec<usize>)> = (0..=1).flat_map(|a| ds.components(&[a, a + 1, a + 2]).into_iter().map(move |c| (a, c))).collect();
    // weight of an orbit in a component's curvature
    let kk: Vec<i64> = reps.iter().map(|&(i, d)| if ds.orbit2(i, i + 1, d).iter().any(|&e| ds.op[i][e] == e || ds.op[i + 1][e] == e) { 1 } else { 2 }).collect();
    // which orbits meet which component (an orbit lies entirely inside a component it meets)
    let member: Vec<Vec<usize>> = comps.iter().map(|(a, c)| (0..reps.len()).filter(|&k| { let (i, d) = reps[k]; (i == *a || i == a + 1) && c.contains(&d) }).collect()).collect();
    // orbit lengths (curvature uses 1/m summed over chambers = k / v per orbit)
    let mut order: Vec<usize> = (0..reps.len()).collect();
    order.sort_by_key(|&k| match reps[k].0 { 1 => 0, 0 => 1, _ => 2 });
    let mut out = vec![];
    let mut vs = vec![0usize; reps.len()];
    fn bound_ok(comps: &[(usize, Vec<usize>)], member: &[Vec<usize>], kk: &[i64], vs: &[usize]) -> bool {
        for (ci, (_, c)) in comps.iter().enumerate() {
            let mut k = -Q::new(c.len() as i64, 2);
            for &o in &member[ci] {
                let v = if vs[o] == 0 { 1 } else { vs[o] };
                k += Q::new(kk[o], v as i64);
            }
            if !k.is_positive() {
                return false;
            }
        }
        true
    }
    fn rec(ds: &DS, reps: &[(usize, usize)], comps: &[(usize, Vec<usize>)], member: &[Vec<usize>], kk: &[i64], order: &[usize], pos: usize, vs: &mut Vec<usize>, vals: &[usize], out: &mut Vec<DS>) {
        if !bound_ok(comps, member, kk, vs) {
            return;
        }
        if pos == order.len() {
            let sym = assign(ds, reps, vs);
            if has_spherical_links(&sym) {
                out.push(sym);
            }
            return;
        }
        let k = order[pos];
        for &v in vals {
            vs[k] = v;
            rec(ds, reps, comps, member, kk, order, pos + 1, vs, vals, out);
        }
        vs[k] = 0;
    }
    rec(ds, &reps, &comps, &member, &kk, &order, 0, &mut vs, vals, &mut out);
    out
}

/// all such symbols over all connected 3D D-sets with exactly n chambers
pub fn symbols_of_size(n: usize, vals: &[usize]) -> Vec<DS> {
    dsets_of_size(3, n).par_iter().flat_map(|ds| symbols_on(ds, vals)).collect()
}

pub const CRYSTALLOGRAPHIC: [usize; 5] = [1, 2, 3, 4, 6];

/// The 3D symbols used by C15 / C17: all of them up to `full` chambers, then every `stride`-th
/// symbol (in generation order, a deterministic slice) of the sizes up to `sliced`.
/// Returns the symbols and a description of the bound.
pub fn symbol_pool(full: usize, sliced: usize, stride: usize) -> (Vec<DS>, String) {
    let mut out = vec![];
    for n in 1..=full {
        out.extend(symbols_of_size(n, &CRYSTALLOGRAPHIC));
    }
    let nfull = out.len();
    for n in (full + 1)..=sliced {
        out.extend(symbols_of_size(n, &CRYSTALLOGRAPHIC).into_iter().step_by(stride));
    }
    let text = if sliced > full {
        format!("all {} symbols with <= {} chambers and every {}th symbol ({}) of those with {}..={} chambers", nfull, full, stride, out.len() - nfull, full + 1, sliced)
    } else {
        format!("all {} symbols with <= {} chambers", nfull, full)
    };
    (out, text)
}

// ---------------------------------------------------------------------------
// euclidean 2D symbols with all degrees >= 3, by own classification

pub fn euclidean_2d_on(ds: &DS) -> Vec<DS> {
    let reps = orbit_reps(ds);
    let vmin: Vec<usize> = reps.iter().map(|&(i, d)| match ds.r(i, i + 1, d) { 1 => 3, 2 => 2, _ => 1 }).collect();
    let kk: Vec<i64> = reps.iter().map(|&(i, d)| if ds.orbit2(i, i + 1, d).iter().any(|&e| ds.op[i][e] == e || ds.op[i + 1][e] == e) { 1 } else { 2 }).collect();
    let k_of = |vs: &[usize]| -> Q {
        let mut s = -Q::new(ds.size as i64, 2);
        for (j, &v) in vs.iter().enumerate() {
            s += Q::new(kk[j], v as i64);
        }
        s
    };
    let mut out = vec![];
    let mut vs = vmin.clone();
    fn rec(ds: &DS, reps: &[(usize, usize)], vmin: &[usize], k_of: &dyn Fn(&[usize]) -> Q, pos: usize, vs: &mut Vec<usize>, out: &mut Vec<DS>) {
        let k = k_of(vs);
        if k.is_negative() {
            return;
        }
        if pos == vs.len() {
            if k.is_zero() {
                out.push(assign(ds, reps, vs));
            }
            return;
        }
        for v in vmin[pos]..=6 {
            vs[pos] = v;
            rec(ds, reps, vmin, k_of, pos + 1, vs, out);
        }
        vs[pos] = vmin[pos];
    }
    rec(ds, &reps, &vmin, &k_of, 0, &mut vs, &mut out);
    out
}

/// one euclidean 2D symbol per isomorphism class, sizes 1..=max_n
pub fn euclidean_2d_up_to(max_n: usize) -> Vec<DS> {
    let mut seen = std::collections::BTreeSet::new();
    let mut out = vec![];
    for n in 1..=max_n {
        for ds in dsets_of_size(2, n) {
            for s in euclidean_2d_on(&ds) {
                if seen.insert(crate::oracle::iso::canonical_code(&s, true)) {
                    out.push(s);
                }
            }
        }
    }
    out
}

// ---------------------------------------------------------------------------
// products

/// the four connected tilings of the line by intervals: pairs of involutions on <= 2 points
pub const LINES: [(&[usize], &[usize], &str); 4] = [(&[0], &[0], "mirror-mirror"), (&[1, 0], &[1, 0], "translation"), (&[1, 0], &[0, 1], "mirror at vertices"), (&[0, 1], &[1, 0], "mirror at midpoints")];

/// D-symbol of (euclidean 2D tiling) x (tiling of the line by intervals): prisms over the tiles.
/// 3D chamber ((d-1)*k + a)*3 + type + 1 with type 0 = A (in the base face), 1 = B, 2 = C.
pub fn product(ds: &DS, t0: &[usize], t1: &[usize]) -> DS {
    assert!(ds.dim == 2);
    let n = ds.size;
    let k = t0.len();
    let idx = |d: usize, a: usize, t: usize| ((d - 1) * k + a) * 3 + t + 1;
    let mut out = DS::new(3, 3 * n * k);
    for d in 1..=n {
        for a in 0..k {
            for t in 0..3 {
                let x = idx(d, a, t);
                let s = |i: usize| ds.op[i][d];
                out.op[0][x] = match t { 0 | 1 => idx(s(0), a, t), _ => idx(d, t0[a], 2) };
                out.op[1][x] = match t { 0 => idx(s(1), a, 0), 1 => idx(d, a, 2), _ => idx(d, a, 1) };
                out.op[2][x] = match t { 0 => idx(d, a, 1), 1 => idx(d, a, 0), _ => idx(s(1), a, 2) };
                out.op[3][x] = match t { 0 => idx(d, t1[a], 0), _ => idx(s(2), a, t) };
            }
        }
    }
    // degrees
    for d in 1..=n {
        for a in 0..k {
            for t in 0..3 {
                let x = idx(d, a, t);
                let m = [
                    if t == 0 { ds.m(0, d) } else { 4 },
                    3,
                    if t == 2 { ds.m(1, d) } else { 4 },
                ];
                for i in 0..3 {
                    let r = out.r(i, i + 1, x);
                    assert!(m[i] % r == 0, "harness: product construction gives m not divisible by r");
                    out.v[i][x] = m[i] / r;
                }
            }
        }
    }
    out
}
