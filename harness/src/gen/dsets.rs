//! G-DSET — all connected complete D-sets with commuting non-adjacent operations, one per
//! isomorphism class, by brute force over tuples of involutions (independent of the crate's generator).
use crate::model::DS;
use crate::oracle::iso::canonical_code;
use rayon::prelude::*;
use std::collections::BTreeMap;

/// all involutions on n points as image tables (index 0 unused)
pub fn involutions(n: usize) -> Vec<Vec<usize>> {
    fn rec(n: usize, d: usize, cur: &mut Vec<usize>, out: &mut Vec<Vec<usize>>) {
        let mut d = d;
        while d <= n && cur[d] != 0 {
            d += 1;
        }
        if d > n {
            out.push(cur.clone());
            return;
        }
        cur[d] = d;
        rec(n, d + 1, cur, out);
        cur[d] = 0;
        for e in (d + 1)..=n {
            if cur[e] == 0 {
                cur[d] = e;
                cur[e] = d;
                rec(n, d + 1, cur, out);
                cur[d] = 0;
                cur[e] = 0;
            }
        }
    }
    let mut out = vec![];
    rec(n, 1, &mut vec![0; n + 1], &mut out);
    out
}

fn commute(a: &[usize], b: &[usize]) -> bool {
    (1..a.len()).all(|d| a[b[d]] == b[a[d]])
}

/// the involution (1 2)(3 4)..(2k-1 2k) on n points
fn standard_involution(n: usize, k: usize) -> Vec<usize> {
    let mut v: Vec<usize> = (0..=n).collect();
    for t in 0..k {
        v.swap(2 * t + 1, 2 * t + 2);
    }
    v
}

/// One representative (in own canonical numbering) per isomorphism class of connected complete
/// D-sets of dimension `dim` (1..=3) with exactly n chambers whose non-adjacent operations commute.
/// Without loss of generality op 0 is a standard involution of its cycle type.
pub fn dsets_of_size(dim: usize, n: usize) -> Vec<DS> {
    if dim >= 4 {
        return dsets_of_size_any_dim(dim, n);
    }
    assert!((1..=3).contains(&dim));
    let invs = involutions(n);
    let mut found: BTreeMap<Vec<usize>, DS> = BTreeMap::new();
    let consider = |ops: [&Vec<usize>; 4], local: &mut BTreeMap<Vec<usize>, DS>| {
        let mut ds = DS::new(dim, n);
        for i in 0..=dim {
            ds.op[i] = ops[i].clone();
        }
        for i in 0..dim {
            for d in 1..=n {
                ds.v[i][d] = 1;
            }
        }
        if ds.is_connected() {
            debug_assert!(ds.commutes());
            local.entry(canonical_code(&ds, false)).or_insert(ds);
        }
    };
    for k in 0..=(n / 2) {
        let s0 = standard_involution(n, k);
        let c0: Vec<&Vec<usize>> = invs.iter().filter(|x| commute(x, &s0)).collect();
        // per-thread maps, merged pairwise (memory stays proportional to the number of classes)
        let merge = |mut a: BTreeMap<Vec<usize>, DS>, b: BTreeMap<Vec<usize>, DS>| {
            for (k, v) in b {
                a.entry(k).or_insert(v);
            }
            a
        };
        let part: BTreeMap<Vec<usize>, DS> = match dim {
            1 => {
                let mut local = BTreeMap::new();
                for s1 in &invs {
                    consider([&s0, s1, s1, s1], &mut local);
                }
                local
            }
            2 => c0
                .par_iter()
                .fold(BTreeMap::new, |mut local, s2| {
                    for s1 in &invs {
                        consider([&s0, s1, s2, s2], &mut local);
                    }
                    local
                })
                .reduce(BTreeMap::new, merge),
            _ => {
                // s2, s3 commute with s0; s1 commutes with s3
                let pairs: Vec<(&Vec<usize>, &Vec<usize>)> = c0.iter().flat_map(|s3| c0.iter().map(move |s2| (*s3, *s2))).collect();
                pairs
                    .par_iter()
                    .fold(BTreeMap::new, |mut local, (s3, s2)| {
                        for s1 in invs.iter().filter(|x| commute(x, s3)) {
                            consider([&s0, s1, s2, s3], &mut local);
                        }
                        local
                    })
                    .reduce(BTreeMap::new, merge)
            }
        };
        for (code, ds) in part {
            found.entry(code).or_insert(ds);
        }
    }
    found.into_values().map(|ds| crate::oracle::iso::canonical_ds(&ds)).collect()
}

/// The same for any dimension: operations are chosen one index at a time, each commuting with all
/// operations whose index is smaller by two or more (op 0 standard up to its cycle type).
pub fn dsets_of_size_any_dim(dim: usize, n: usize) -> Vec<DS> {
    let invs = involutions(n);
    let starts: Vec<Vec<usize>> = (0..=(n / 2)).map(|k| standard_involution(n, k)).collect();
    fn rec<'a>(dim: usize, n: usize, invs: &'a [Vec<usize>], ops: &mut Vec<&'a Vec<usize>>, local: &mut BTreeMap<Vec<usize>, DS>) {
        let i = ops.len();
        if i == dim + 1 {
            let mut ds = DS::new(dim, n);
            for (k, o) in ops.iter().enumerate() {
                ds.op[k] = (*o).clone();
            }
            for k in 0..dim {
                for d in 1..=n {
                    ds.v[k][d] = 1;
                }
            }
            if ds.is_connected() {
                debug_assert!(ds.commutes());
                local.entry(canonical_code(&ds, false)).or_insert(ds);
            }
            return;
        }
        for cand in invs {
            if (0..i.saturating_sub(1)).all(|j| commute(cand, ops[j])) {
                ops.push(cand);
                rec(dim, n, invs, ops, local);
                ops.pop();
            }
        }
    }
    let merge = |mut a: BTreeMap<Vec<usize>, DS>, b: BTreeMap<Vec<usize>, DS>| {
        for (k, v) in b {
            a.entry(k).or_insert(v);
        }
        a
    };
    // parallel over (s0, s1)
    let firsts: Vec<(&Vec<usize>, &Vec<usize>)> = starts.iter().flat_map(|s0| invs.iter().map(move |s1| (s0, s1))).collect();
    let found = firsts
        .par_iter()
        .fold(BTreeMap::new, |mut local, (s0, s1)| {
            let mut ops: Vec<&Vec<usize>> = vec![*s0, *s1];
            rec(dim, n, &invs, &mut ops, &mut local);
            local
        })
        .reduce(BTreeMap::new, merge);
    found.into_values().map(|ds| crate::oracle::iso::canonical_ds(&ds)).collect()
}

/// all classes with 1..=max_n chambers
pub fn dsets_up_to(dim: usize, max_n: usize) -> Vec<DS> {
    (1..=max_n).flat_map(|n| dsets_of_size(dim, n)).collect()
}

// ---------------------------------------------------------------------------
// random commuting D-sets by construction (every such D-set has positive probability)

use crate::runner::pick_index;
use proptest::prelude::*;

struct Entropy<'a> {
    data: &'a [u32],
    pos: usize,
}
impl<'a> Entropy<'a> {
    fn next(&mut self, n: usize) -> usize {
        let x = if self.data.is_empty() { 0 } else { self.data[self.pos % self.data.len()].wrapping_add(((self.pos / self.data.len()) as u32).wrapping_mul(0x9e37_79b9)) };
        self.pos += 1;
        pick_index(x, n)
    }
}

/// random involution on the given points; choice 0 = fixed point
fn random_involution_on(points: &[usize], table: &mut [usize], ent: &mut Entropy) {
    let mut free: Vec<usize> = points.to_vec();
    while !free.is_empty() {
        let a = free.remove(0);
        // bias towards pairing: 0 -> fixed, otherwise a partner
        let k = ent.next(free.len() + 1);
        // rotate so that "fixed" is the last option: shrinking towards 0 pairs with the next free point
        if k == free.len() {
            table[a] = a;
        } else {
            let b = free.remove(k);
            table[a] = b;
            table[b] = a;
        }
    }
}

/// random involution commuting with s
fn random_centralizer_involution(n: usize, s: &[usize], ent: &mut Entropy) -> Vec<usize> {
    let mut t = vec![0usize; n + 1];
    let fixed: Vec<usize> = (1..=n).filter(|&d| s[d] == d).collect();
    random_involution_on(&fixed, &mut t, ent);
    let cycles: Vec<(usize, usize)> = (1..=n).filter(|&d| s[d] > d).map(|d| (d, s[d])).collect();
    // involution on the set of 2-cycles
    let idx: Vec<usize> = (0..cycles.len()).collect();
    let mut pairing = vec![0usize; cycles.len()];
    {
        let mut free = idx.clone();
        while !free.is_empty() {
            let a = free.remove(0);
            let k = ent.next(free.len() + 1);
            if k == free.len() {
                pairing[a] = a;
            } else {
                let b = free.remove(k);
                pairing[a] = b;
                pairing[b] = a;
            }
        }
    }
    for (a, &(x, y)) in cycles.iter().enumerate() {
        let b = pairing[a];
        if b == a {
            if ent.next(2) == 0 {
                t[x] = x;
                t[y] = y;
            } else {
                t[x] = y;
                t[y] = x;
            }
        } else if b > a {
            let (u, w) = cycles[b];
            if ent.next(2) == 0 {
                t[x] = u;
                t[u] = x;
                t[y] = w;
                t[w] = y;
            } else {
                t[x] = w;
                t[w] = x;
                t[y] = u;
                t[u] = y;
            }
        }
    }
    t
}

/// random involution commuting with every involution in `gens`: orbit-wise equivariant extension of a
/// choice c(a) = b (b = a, the identity on the orbit of a, always extends)
fn random_centralizer_involution_multi(n: usize, gens: &[&Vec<usize>], ent: &mut Entropy) -> Vec<usize> {
    fn try_extend(t: &mut [usize], a: usize, b: usize, gens: &[&Vec<usize>]) -> bool {
        let mut stack = vec![(a, b)];
        while let Some((x, y)) = stack.pop() {
            if t[x] != 0 {
                if t[x] != y {
                    return false;
                }
                continue;
            }
            if t[y] != 0 && t[y] != x {
                return false;
            }
            t[x] = y;
            t[y] = x;
            for g in gens {
                stack.push((g[x], g[y]));
            }
        }
        true
    }
    let mut t = vec![0usize; n + 1];
    for a in 1..=n {
        if t[a] != 0 {
            continue;
        }
        let cands: Vec<usize> = (a..=n).filter(|&b| t[b] == 0).collect();
        let start = ent.next(cands.len());
        for off in 0..cands.len() {
            let b = cands[(start + off) % cands.len()];
            let mut trial = t.clone();
            if try_extend(&mut trial, a, b, gens) {
                t = trial;
                break;
            }
        }
        assert!(t[a] != 0, "the identity on an orbit always extends");
    }
    t
}

/// a complete D-set of the given dimension and size whose non-adjacent operations commute
/// (not necessarily connected)
pub fn random_commuting_dset(dim: usize, n: usize, entropy: &[u32]) -> DS {
    let mut ent = Entropy { data: entropy, pos: 0 };
    let all: Vec<usize> = (1..=n).collect();
    let mut ds = DS::new(dim, n);
    let mut s0 = vec![0usize; n + 1];
    random_involution_on(&all, &mut s0, &mut ent);
    if dim >= 4 {
        // two "free" neighbours s_a, s_{a+1} somewhere in the chain, everything else by centralisers:
        // first the operations below a (descending), then those above a + 1 (ascending)
        let a = ent.next(dim);
        let mut s1 = vec![0usize; n + 1];
        random_involution_on(&all, &mut s1, &mut ent);
        let mut ops: Vec<Option<Vec<usize>>> = vec![None; dim + 1];
        ops[a] = Some(s0);
        ops[a + 1] = Some(s1);
        let mut order: Vec<usize> = (0..a).rev().collect();
        order.extend(a + 2..=dim);
        for i in order {
            let far: Vec<&Vec<usize>> = (0..=dim).filter(|&j| (j as isize - i as isize).abs() > 1).filter_map(|j| ops[j].as_ref()).collect();
            let s = if far.is_empty() { let mut s = vec![0usize; n + 1]; random_involution_on(&all, &mut s, &mut ent); s } else { random_centralizer_involution_multi(n, &far, &mut ent) };
            ops[i] = Some(s);
        }
        ds.op = ops.into_iter().map(|o| o.unwrap()).collect();
        for i in 0..dim {
            for d in 1..=n {
                ds.v[i][d] = 1;
            }
        }
        debug_assert!(ds.commutes());
        return ds;
    }
    match dim {
        1 => {
            let mut s1 = vec![0usize; n + 1];
            random_involution_on(&all, &mut s1, &mut ent);
            ds.op = vec![s0, s1];
        }
        2 => {
            let s2 = random_centralizer_involution(n, &s0, &mut ent);
            let mut s1 = vec![0usize; n + 1];
            random_involution_on(&all, &mut s1, &mut ent);
            ds.op = vec![s0, s1, s2];
        }
        _ => {
            let s3 = random_centralizer_involution(n, &s0, &mut ent);
            let s2 = random_centralizer_involution(n, &s0, &mut ent);
            let s1 = random_centralizer_involution(n, &s3, &mut ent);
            ds.op = vec![s0, s1, s2, s3];
        }
    }
    for i in 0..dim {
        for d in 1..=n {
            ds.v[i][d] = 1;
        }
    }
    ds
}

/// connected commuting D-sets with sizes in the given range (rejection on connectivity only)
pub fn connected_dset_strategy(dim: usize, sizes: std::ops::RangeInclusive<usize>) -> impl Strategy<Value = DS> {
    (sizes, prop::collection::vec(any::<u32>(), 24)).prop_filter_map("connected", move |(n, ent)| {
        let ds = random_commuting_dset(dim, n, &ent);
        if ds.is_connected() {
            Some(ds)
        } else {
            None
        }
    })
}
