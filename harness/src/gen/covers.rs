//! G-COVER — connected k-sheeted covers of a D-symbol by brute force over voltage assignments
//! (permutations of the sheets on the facet pairs outside a spanning tree), independent of the
//! crate's fundamental group / coset enumeration. Also: reading a cover with the documented
//! projection d -> (d-1) mod |base| + 1 back into a voltage assignment, and a canonical form of
//! covers up to equivalence (conjugation of the sheets).
use crate::model::DS;
use std::collections::VecDeque;

pub type Perm = Vec<usize>;

pub struct Frame {
    pub n: usize,
    pub dim: usize,
    /// all facet pairs (i, d) with d <= op_i(d)
    pub edges: Vec<(usize, usize)>,
    /// edge index of (i, d) for either endpoint
    pub edge_of: Vec<Vec<usize>>,
    pub is_tree: Vec<bool>,
    /// non-tree edge indices in assignment order
    pub free: Vec<usize>,
    /// cycles to check: (steps as (index, chamber) pairs, exponent v)
    pub cycles: Vec<(Vec<(usize, usize)>, usize)>,
    /// BFS order of the tree: (parent chamber, index, child chamber)
    pub tree: Vec<(usize, usize, usize)>,
}

pub fn frame(base: &DS) -> Frame {
    let n = base.size;
    let dim = base.dim;
    let mut edges = vec![];
    let mut edge_of = vec![vec![usize::MAX; n + 1]; dim + 1];
    for i in 0..=dim {
        for d in 1..=n {
            let e = base.op[i][d];
            if d <= e {
                edge_of[i][d] = edges.len();
                edge_of[i][e] = edges.len();
                edges.push((i, d));
            }
        }
    }
    // own spanning tree: BFS from chamber 1, indices ascending
    let mut is_tree = vec![false; edges.len()];
    let mut seen = vec![false; n + 1];
    let mut tree = vec![];
    let mut q = VecDeque::from([1usize]);
    seen[1] = true;
    while let Some(d) = q.pop_front() {
        for i in 0..=dim {
            let e = base.op[i][d];
            if !seen[e] {
                seen[e] = true;
                is_tree[edge_of[i][d]] = true;
                tree.push((d, i, e));
                q.push_back(e);
            }
        }
    }
    let free: Vec<usize> = (0..edges.len()).filter(|&k| !is_tree[k]).collect();
    // cycles: one per (i,j)-orbit, i < j
    let mut cycles = vec![];
    for i in 0..=dim {
        for j in (i + 1)..=dim {
            let mut done = vec![false; n + 1];
            for d in 1..=n {
                if done[d] {
                    continue;
                }
                let mut steps = vec![];
                let mut x = d;
                loop {
                    done[x] = true;
                    steps.push((i, x));
                    x = base.op[i][x];
                    done[x] = true;
                    steps.push((j, x));
                    x = base.op[j][x];
                    if x == d {
                        break;
                    }
                }
                let r = steps.len() / 2;
                let v = if j == i + 1 { base.v[i][d] } else { 2 / r.min(2) };
                cycles.push((steps, v));
            }
        }
    }
    Frame { n, dim, edges, edge_of, is_tree, free, cycles, tree }
}

fn inverse(p: &Perm) -> Perm {
    let mut q = vec![0; p.len()];
    for (a, &b) in p.iter().enumerate() {
        q[b] = a;
    }
    q
}

pub fn all_perms(k: usize) -> Vec<Perm> {
    fn rec(k: usize, cur: &mut Vec<usize>, used: &mut Vec<bool>, out: &mut Vec<Perm>) {
        if cur.len() == k {
            out.push(cur.clone());
            return;
        }
        for x in 0..k {
            if !used[x] {
                used[x] = true;
                cur.push(x);
                rec(k, cur, used, out);
                cur.pop();
                used[x] = false;
            }
        }
    }
    let mut out = vec![];
    rec(k, &mut vec![], &mut vec![false; k], &mut out);
    out
}

/// voltages indexed by edge number; tree edges carry the identity
pub type Voltages = Vec<Perm>;

struct Search<'a> {
    base: &'a DS,
    f: &'a Frame,
    k: usize,
    perms: Vec<Perm>,
    invs: Vec<Perm>,
    involutions: Vec<usize>,
    volt: Vec<Option<usize>>,
    /// cycles to verify once the free edge at position p has been assigned
    due: Vec<Vec<usize>>,
    out: Vec<Voltages>,
    nodes: u64,
    budget: u64,
    id: usize,
}

impl<'a> Search<'a> {
    fn lift(&self, c: usize, x: usize, s: usize) -> usize {
        let e = self.f.edge_of[c][x];
        let p = self.volt[e].unwrap();
        let (_, lower) = self.f.edges[e];
        if x == lower {
            self.perms[p][s]
        } else {
            self.invs[p][s]
        }
    }

    fn cycle_ok(&self, c: usize) -> bool {
        let (steps, v) = &self.f.cycles[c];
        for s0 in 0..self.k {
            // order of s0 under the holonomy must divide v
            let mut s = s0;
            let mut ok = false;
            for _ in 0..*v {
                for &(idx, x) in steps {
                    s = self.lift(idx, x, s);
                }
                if s == s0 {
                    ok = true;
                    break;
                }
            }
            if !ok {
                return false;
            }
            // s returned to s0 after t <= v rounds; t must divide v
            let mut t = 0;
            let mut s = s0;
            loop {
                for &(idx, x) in steps {
                    s = self.lift(idx, x, s);
                }
                t += 1;
                if s == s0 {
                    break;
                }
            }
            if v % t != 0 {
                return false;
            }
        }
        true
    }

    fn transitive(&self) -> bool {
        let n = self.f.n;
        let mut seen = vec![false; self.k * (n + 1)];
        let mut q = VecDeque::from([(0usize, 1usize)]);
        seen[1] = true;
        let mut count = 1;
        while let Some((s, d)) = q.pop_front() {
            for i in 0..=self.f.dim {
                let t = self.lift(i, d, s);
                let e = self.base.op[i][d];
                if !seen[t * (n + 1) + e] {
                    seen[t * (n + 1) + e] = true;
                    count += 1;
                    q.push_back((t, e));
                }
            }
        }
        count == self.k * n
    }

    fn rec(&mut self, pos: usize) -> bool {
        self.nodes += 1;
        if self.nodes > self.budget {
            return false;
        }
        if pos == self.f.free.len() {
            if self.transitive() {
                self.out.push(self.volt.iter().map(|p| self.perms[p.unwrap()].clone()).collect());
            }
            return true;
        }
        let e = self.f.free[pos];
        let (i, d) = self.f.edges[e];
        let is_loop = self.base.op[i][d] == d;
        let cands: Vec<usize> = if is_loop { self.involutions.clone() } else { (0..self.perms.len()).collect() };
        for p in cands {
            self.volt[e] = Some(p);
            if self.due[pos].iter().all(|&c| self.cycle_ok(c)) {
                if !self.rec(pos + 1) {
                    return false;
                }
            }
        }
        self.volt[e] = None;
        true
    }
}

/// All voltage assignments (tree edges identity) that give a connected k-sheeted cover of `base`.
/// None if the search exceeds `budget` nodes. Equivalent covers appear several times.
pub fn enumerate_covers(base: &DS, f: &Frame, k: usize, budget: u64) -> Option<Vec<Voltages>> {
    let perms = all_perms(k);
    let invs: Vec<Perm> = perms.iter().map(inverse).collect();
    let involutions: Vec<usize> = (0..perms.len()).filter(|&p| perms[p] == invs[p]).collect();
    let id = perms.iter().position(|p| p.iter().enumerate().all(|(a, &b)| a == b)).unwrap();
    let mut volt: Vec<Option<usize>> = vec![None; f.edges.len()];
    for e in 0..f.edges.len() {
        if f.is_tree[e] {
            volt[e] = Some(id);
        }
    }
    // position at which each cycle becomes fully assigned
    let mut pos_of = vec![usize::MAX; f.edges.len()];
    for (p, &e) in f.free.iter().enumerate() {
        pos_of[e] = p;
    }
    let mut due = vec![vec![]; f.free.len()];
    let mut immediate = vec![];
    for (c, (steps, _)) in f.cycles.iter().enumerate() {
        let last = steps.iter().map(|&(i, x)| f.edge_of[i][x]).filter(|&e| !f.is_tree[e]).map(|e| pos_of[e]).max();
        match last {
            Some(p) => due[p].push(c),
            None => immediate.push(c),
        }
    }
    let mut s = Search { base, f, k, perms, invs, involutions, volt, due, out: vec![], nodes: 0, budget, id };
    let _ = s.id;
    // cycles made of tree edges only have trivial holonomy: always fine
    let _ = immediate;
    if s.rec(0) {
        Some(s.out)
    } else {
        None
    }
}

/// the cover as a D-symbol: chamber (sheet s, d) is numbered s * n + d
pub fn cover_from_voltages(base: &DS, f: &Frame, volt: &Voltages, k: usize) -> DS {
    let n = base.size;
    let mut y = DS::new(base.dim, k * n);
    for i in 0..=base.dim {
        for d in 1..=n {
            let e = f.edge_of[i][d];
            let (_, lower) = f.edges[e];
            let inv = inverse(&volt[e]);
            for s in 0..k {
                let t = if d == lower { volt[e][s] } else { inv[s] };
                y.op[i][s * n + d] = t * n + base.op[i][d];
            }
        }
    }
    for i in 0..base.dim {
        for x in 1..=k * n {
            let r = y.r(i, i + 1, x);
            let m = base.m(i, (x - 1) % n + 1);
            y.v[i][x] = m / r;
        }
    }
    y
}

/// Is `y` a covering of `base` under the projection x -> (x-1) mod n + 1?  Returns the sheet
/// number, or a description of what fails.
pub fn check_projection(base: &DS, y: &DS) -> Result<usize, String> {
    let n = base.size;
    if y.dim != base.dim {
        return Err(format!("cover has dimension {}, base {}", y.dim, base.dim));
    }
    if y.size == 0 || y.size % n != 0 {
        return Err(format!("cover size {} is not a multiple of the base size {}", y.size, n));
    }
    let k = y.size / n;
    let proj = |x: usize| (x - 1) % n + 1;
    for x in 1..=y.size {
        for i in 0..=y.dim {
            let e = y.op[i][x];
            if e < 1 || e > y.size {
                return Err(format!("cover is incomplete at op({}, {})", i, x));
            }
            if proj(e) != base.op[i][proj(x)] {
                return Err(format!("projection does not commute with operation {} at cover chamber {}: op = {} lies over {}, base op({}, {}) = {}", i, x, e, proj(e), i, proj(x), base.op[i][proj(x)]));
            }
        }
        for i in 0..y.dim {
            if y.v[i][x] == 0 {
                return Err(format!("cover has an undefined degree at ({}, {})", i, x));
            }
            if y.m(i, x) != base.m(i, proj(x)) {
                return Err(format!("degree m({},{}) = {} at cover chamber {} differs from {} at base chamber {}", i, i + 1, y.m(i, x), x, base.m(i, proj(x)), proj(x)));
            }
        }
    }
    // equal fibre sizes hold by construction of the projection (k preimages each)
    Ok(k)
}

/// Read a cover (with the documented projection) back as voltages relative to the frame's tree.
pub fn voltages_from_cover(base: &DS, f: &Frame, y: &DS) -> Result<Voltages, String> {
    let k = check_projection(base, y)?;
    let n = base.size;
    // sheet labels: the fibre over chamber 1 is labelled by its position, then lifted along the tree
    let mut label = vec![usize::MAX; y.size + 1];
    for s in 0..k {
        label[s * n + 1] = s;
    }
    for &(p, i, c) in &f.tree {
        // every point over p is labelled; its i-neighbour lies over c
        for s in 0..k {
            let x = s * n + p;
            let z = y.op[i][x];
            debug_assert!((z - 1) % n + 1 == c);
            label[z] = label[x];
        }
    }
    let mut volt: Voltages = vec![vec![0; k]; f.edges.len()];
    for (e, &(i, d)) in f.edges.iter().enumerate() {
        for s in 0..k {
            let x = s * n + d;
            let z = y.op[i][x];
            volt[e][label[x]] = label[z];
        }
    }
    Ok(volt)
}

/// canonical form of a cover up to equivalence (conjugation of the sheets). For a transitive
/// voltage action (a connected cover): minimum over the base sheets of the breadth-first
/// relabelling from that sheet (generators and their inverses in a fixed order), which is
/// invariant under conjugation; otherwise the minimum over all relabellings.
pub fn canonical_voltages(volt: &Voltages, k: usize) -> Vec<usize> {
    let invs: Vec<Perm> = volt.iter().map(|p| inverse(p)).collect();
    let mut best: Option<Vec<usize>> = None;
    let mut transitive = true;
    for b in 0..k {
        let mut label = vec![usize::MAX; k];
        let mut order = vec![b];
        label[b] = 0;
        let mut head = 0;
        while head < order.len() {
            let s = order[head];
            head += 1;
            for (p, pi) in volt.iter().zip(invs.iter()) {
                for t in [p[s], pi[s]] {
                    if label[t] == usize::MAX {
                        label[t] = order.len();
                        order.push(t);
                    }
                }
            }
        }
        if order.len() < k {
            transitive = false;
            break;
        }
        let mut code = Vec::with_capacity(volt.len() * k);
        for p in volt {
            for &s in &order {
                code.push(label[p[s]]);
            }
        }
        if best.as_ref().map_or(true, |x| code < *x) {
            best = Some(code);
        }
    }
    if transitive {
        return best.unwrap_or_default();
    }
    let mut best: Option<Vec<usize>> = None;
    for g in all_perms(k) {
        let gi = inverse(&g);
        let mut code = Vec::with_capacity(volt.len() * k);
        for p in volt {
            // g p g^-1
            for s in 0..k {
                code.push(g[p[gi[s]]]);
            }
        }
        if best.as_ref().map_or(true, |b| code < *b) {
            best = Some(code);
        }
    }
    best.unwrap_or_default()
}

/// one voltage assignment per equivalence class of connected covers with exactly k sheets
pub fn cover_classes(base: &DS, f: &Frame, k: usize, budget: u64) -> Option<Vec<(Vec<usize>, Voltages)>> {
    let all = enumerate_covers(base, f, k, budget)?;
    let mut map = std::collections::BTreeMap::new();
    for v in all {
        map.entry(canonical_voltages(&v, k)).or_insert(v);
    }
    Some(map.into_iter().collect())
}
