//! G-DSYM — branching assignments on D-sets (exhaustive and random), random renumberings
use crate::gen::dsets::random_commuting_dset;
use crate::model::*;
use crate::runner::pick_index;
use proptest::prelude::*;
use std::sync::Arc;

/// (i, representative) of every (i,i+1)-orbit, in the order i = 0.., representative ascending
pub fn orbit_reps(ds: &DS) -> Vec<(usize, usize)> {
    let mut out = vec![];
    for i in 0..ds.dim {
        let mut seen = vec![false; ds.size + 1];
        for d in 1..=ds.size {
            if !seen[d] {
                for e in ds.orbit2(i, i + 1, d) {
                    seen[e] = true;
                }
                out.push((i, d));
            }
        }
    }
    out
}

pub fn assign(ds: &DS, reps: &[(usize, usize)], vs: &[usize]) -> DS {
    let mut out = ds.clone();
    for (k, &(i, d)) in reps.iter().enumerate() {
        out.set_v(i, d, vs[k]);
    }
    out
}

/// number of assignments with values in 1..=vmax
pub fn assignment_count(ds: &DS, vmax: usize) -> u64 {
    let k = orbit_reps(ds).len() as u32;
    (vmax as u64).checked_pow(k).unwrap_or(u64::MAX)
}

/// the idx-th assignment (mixed radix, value 1 first)
pub fn nth_assignment(ds: &DS, reps: &[(usize, usize)], vmax: usize, mut idx: u64) -> DS {
    let vs: Vec<usize> = reps
        .iter()
        .map(|_| {
            let v = (idx % vmax as u64) as usize + 1;
            idx /= vmax as u64;
            v
        })
        .collect();
    assign(ds, reps, &vs)
}

/// All assignments if there are at most `cap`, otherwise `cap` of them spread deterministically
/// over the index space. Returns (symbols, complete?).
pub fn assignments(ds: &DS, vmax: usize, cap: u64) -> (Vec<DS>, bool) {
    let reps = orbit_reps(ds);
    let total = assignment_count(ds, vmax);
    if total <= cap {
        ((0..total).map(|i| nth_assignment(ds, &reps, vmax, i)).collect(), true)
    } else {
        let step = total / cap;
        ((0..cap).map(|k| nth_assignment(ds, &reps, vmax, k * step + (k * 7919) % step.max(1))).collect(), false)
    }
}

/// branching number with a bias towards small values
pub fn v_strategy() -> impl Strategy<Value = usize> + Clone {
    prop_oneof![6 => Just(1usize), 3 => Just(2usize), 2 => Just(3usize), 1 => 4usize..=8, 1 => prop_oneof![Just(10usize), Just(12), Just(25), Just(100)]]
}

/// random symbol on a D-set drawn from a pool, randomly renumbered
pub fn pooled_symbol(pool: Arc<Vec<DS>>) -> impl Strategy<Value = DS> {
    (any::<u32>(), prop::collection::vec(v_strategy(), 24), prop::collection::vec((any::<u32>(), any::<u32>()), 0..8)).prop_map(move |(k, vs, sw)| {
        let ds = &pool[pick_index(k, pool.len())];
        let reps = orbit_reps(ds);
        let vals: Vec<usize> = (0..reps.len()).map(|j| vs[j % vs.len()]).collect();
        let sym = assign(ds, &reps, &vals);
        sym.renumbered(&perm_from_swaps(sym.size, &sw))
    })
}

/// random connected symbol of any size in the range: random commuting D-set + random branching
pub fn random_symbol(dim: usize, sizes: std::ops::RangeInclusive<usize>) -> impl Strategy<Value = DS> {
    (sizes, prop::collection::vec(any::<u32>(), 32), prop::collection::vec(v_strategy(), 16)).prop_filter_map("connected", move |(n, ent, vs)| {
        let ds = random_commuting_dset(dim, n, &ent);
        if !ds.is_connected() {
            return None;
        }
        let reps = orbit_reps(&ds);
        let vals: Vec<usize> = (0..reps.len()).map(|j| vs[j % vs.len()]).collect();
        Some(assign(&ds, &reps, &vals))
    })
}

/// like `random_symbol` but possibly disconnected
pub fn random_symbol_any(dim: usize, sizes: std::ops::RangeInclusive<usize>) -> impl Strategy<Value = DS> {
    (sizes, prop::collection::vec(any::<u32>(), 32), prop::collection::vec(v_strategy(), 16)).prop_map(move |(n, ent, vs)| {
        let ds = random_commuting_dset(dim, n, &ent);
        let reps = orbit_reps(&ds);
        let vals: Vec<usize> = (0..reps.len()).map(|j| vs[j % vs.len()]).collect();
        assign(&ds, &reps, &vals)
    })
}

/// a complete symbol of any dimension 1..=6 whose operations are arbitrary involutions (no
/// commutation requirement, possibly disconnected): enough for properties about the text form
pub fn unconstrained_symbol(dims: std::ops::RangeInclusive<usize>, sizes: std::ops::RangeInclusive<usize>) -> impl Strategy<Value = DS> {
    (dims, sizes, prop::collection::vec(any::<u32>(), 48), prop::collection::vec(v_strategy(), 16)).prop_map(|(dim, n, ent, vs)| {
        let mut ds = DS::new(dim, n);
        let mut k = 0usize;
        let mut next = |m: usize| {
            let x = ent[k % ent.len()].wrapping_add(((k / ent.len()) as u32).wrapping_mul(0x9e37_79b9));
            k += 1;
            pick_index(x, m)
        };
        for i in 0..=dim {
            let mut free: Vec<usize> = (1..=n).collect();
            while !free.is_empty() {
                let a = free.remove(0);
                let c = next(free.len() + 1);
                if c == free.len() {
                    ds.op[i][a] = a;
                } else {
                    let b = free.remove(c);
                    ds.op[i][a] = b;
                    ds.op[i][b] = a;
                }
            }
        }
        for i in 0..dim {
            for d in 1..=n {
                ds.v[i][d] = 1;
            }
        }
        let reps = orbit_reps(&ds);
        let vals: Vec<usize> = (0..reps.len()).map(|j| vs[j % vs.len()]).collect();
        assign(&ds, &reps, &vals)
    })
}
