//! G-GROUPS — presentation corpus with orders known from the literature
use crate::oracle::groups::{Pres, Word};

#[derive(Clone, Debug)]
pub struct Named {
    pub name: String,
    pub pres: Pres,
    /// Some(order) for finite groups (literature value), None for infinite groups
    pub order: Option<u64>,
}

fn pow(w: &[i64], k: usize) -> Word {
    let mut v = vec![];
    for _ in 0..k {
        v.extend_from_slice(w);
    }
    v
}
fn comm(a: i64, b: i64) -> Word {
    vec![a, b, -a, -b]
}
fn named(name: &str, nr_gens: usize, rels: Vec<Word>, order: Option<u64>) -> Named {
    Named { name: name.to_string(), pres: Pres { nr_gens, rels }, order }
}

/// Coxeter group from its Coxeter matrix entries m(i,j) for i < j (default 2)
fn coxeter(name: &str, n: usize, edges: &[(usize, usize, usize)], order: u64) -> Named {
    let mut rels = vec![];
    for i in 1..=n as i64 {
        rels.push(vec![i, i]);
    }
    for i in 1..=n {
        for j in (i + 1)..=n {
            let m = edges.iter().find(|e| (e.0, e.1) == (i, j)).map(|e| e.2).unwrap_or(2);
            rels.push(pow(&[i as i64, j as i64], m));
        }
    }
    named(name, n, rels, Some(order))
}

pub fn finite_groups(thorough: bool) -> Vec<Named> {
    let mut v = vec![];
    v.push(named("trivial <a | a>", 1, vec![vec![1]], Some(1)));
    for n in [2usize, 3, 5, 12] {
        v.push(named(&format!("Z{}", n), 1, vec![pow(&[1], n)], Some(n as u64)));
    }
    for n in [2usize, 3, 4, 5, 6, 7, 12, 25] {
        v.push(named(&format!("D{} = I2({})", n, n), 2, vec![vec![1, 1], vec![2, 2], pow(&[1, 2], n)], Some(2 * n as u64)));
    }
    for (a, b) in [(2usize, 2usize), (2, 4), (3, 3), (4, 6)] {
        v.push(named(&format!("Z{} x Z{}", a, b), 2, vec![pow(&[1], a), pow(&[2], b), comm(1, 2)], Some((a * b) as u64)));
    }
    v.push(named("Z2 x Z4 x Z3", 3, vec![pow(&[1], 2), pow(&[2], 4), pow(&[3], 3), comm(1, 2), comm(1, 3), comm(2, 3)], Some(24)));
    // Coxeter groups
    v.push(coxeter("A2", 2, &[(1, 2, 3)], 6));
    v.push(coxeter("A3", 3, &[(1, 2, 3), (2, 3, 3)], 24));
    v.push(coxeter("A4", 4, &[(1, 2, 3), (2, 3, 3), (3, 4, 3)], 120));
    v.push(coxeter("B2", 2, &[(1, 2, 4)], 8));
    v.push(coxeter("B3", 3, &[(1, 2, 4), (2, 3, 3)], 48));
    v.push(coxeter("B4", 4, &[(1, 2, 4), (2, 3, 3), (3, 4, 3)], 384));
    v.push(coxeter("D4", 4, &[(1, 2, 3), (2, 3, 3), (2, 4, 3)], 192));
    v.push(coxeter("H3", 3, &[(1, 2, 5), (2, 3, 3)], 120));
    v.push(coxeter("F4", 4, &[(1, 2, 3), (2, 3, 4), (3, 4, 3)], 1152));
    if thorough {
        v.push(coxeter("H4", 4, &[(1, 2, 5), (2, 3, 3), (3, 4, 3)], 14400));
        v.push(coxeter("A5", 5, &[(1, 2, 3), (2, 3, 3), (3, 4, 3), (4, 5, 3)], 720));
        v.push(coxeter("B5", 5, &[(1, 2, 4), (2, 3, 3), (3, 4, 3), (4, 5, 3)], 3840));
    }
    // von Dyck groups (2,3,n)
    for (n, ord, nm) in [(3usize, 12u64, "A4"), (4, 24, "S4"), (5, 60, "A5")] {
        v.push(named(&format!("von Dyck (2,3,{}) = {}", n, nm), 2, vec![vec![1, 1], vec![2, 2, 2], pow(&[1, 2], n)], Some(ord)));
    }
    // binary polyhedral <r,s,t | r^2 = s^3 = t^n = rst>
    for (n, ord) in [(3usize, 24u64), (4, 48), (5, 120)] {
        let rst = vec![1i64, 2, 3];
        let irst: Word = vec![-3, -2, -1];
        let mk = |w: Word| {
            let mut x = w;
            x.extend(irst.iter());
            x
        };
        let _ = &rst;
        v.push(named(&format!("binary polyhedral <2,3,{}>", n), 3, vec![mk(vec![1, 1]), mk(vec![2, 2, 2]), mk(pow(&[3], n))], Some(ord)));
    }
    // dicyclic Q_4n = <a,b | a^2n, a^n b^-2, b^-1 a b a>
    for n in [2usize, 3, 5] {
        let mut r2 = pow(&[1], n);
        r2.extend([-2, -2]);
        v.push(named(&format!("dicyclic Q{}", 4 * n), 2, vec![pow(&[1], 2 * n), r2, vec![-2, 1, 2, 1]], Some(4 * n as u64)));
    }
    // Fibonacci group F(2,5) = Z11
    v.push(named("Fibonacci F(2,5) = Z11", 5, vec![vec![1, 2, -3], vec![2, 3, -4], vec![3, 4, -5], vec![4, 5, -1], vec![5, 1, -2]], Some(11)));
    // PSL(2,7)
    v.push(named("PSL(2,7)", 2, vec![vec![1, 1], vec![2, 2, 2], pow(&[1, 2], 7), pow(&comm(1, 2), 4)], Some(168)));
    // a presentation with a redundant generator and a relator given as a proper power's rotation
    v.push(named("S3 with redundant generator", 3, vec![vec![1, 1], vec![2, 2], pow(&[1, 2], 3), vec![3, -2, -1]], Some(6)));
    v
}

pub fn infinite_groups() -> Vec<Named> {
    let mut v = vec![];
    v.push(named("free F1 = Z", 1, vec![], None));
    v.push(named("free F2", 2, vec![], None));
    v.push(named("free F3", 3, vec![], None));
    v.push(named("Z^2", 2, vec![comm(1, 2)], None));
    v.push(named("Z^3", 3, vec![comm(1, 2), comm(1, 3), comm(2, 3)], None));
    v.push(named("Z^4", 4, vec![comm(1, 2), comm(1, 3), comm(1, 4), comm(2, 3), comm(2, 4), comm(3, 4)], None));
    v.push(named("surface group genus 2", 4, vec![vec![1, 2, -1, -2, 3, 4, -3, -4]], None));
    v.push(named("Klein bottle group", 2, vec![vec![1, 2, -1, 2]], None));
    v.push(named("triangle group (2,3,7)", 2, vec![vec![1, 1], vec![2, 2, 2], pow(&[1, 2], 7)], None));
    v.push(named("triangle group (2,4,5)", 2, vec![vec![1, 1], pow(&[2], 4), pow(&[1, 2], 5)], None));
    v.push(named("triangle group (3,3,4)", 2, vec![pow(&[1], 3), pow(&[2], 3), pow(&[1, 2], 4)], None));
    v.push(named("PSL2(Z) = Z2 * Z3", 2, vec![vec![1, 1], vec![2, 2, 2]], None));
    v.push(named("Z * Z2", 2, vec![vec![2, 2]], None));
    v.push(named("infinite dihedral", 2, vec![vec![1, 1], vec![2, 2]], None));
    v.push(named("*442 (p4m)", 3, vec![vec![1, 1], vec![2, 2], vec![3, 3], pow(&[1, 2], 4), pow(&[2, 3], 4), pow(&[1, 3], 2)], None));
    v.push(named("Baumslag-Solitar BS(1,2)", 2, vec![vec![1, 2, -1, -2, -2]], None));
    v
}
