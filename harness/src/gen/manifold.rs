//! G-MANIFOLD — branch-free 3D D-symbols of closed 3-manifolds whose topology is known by
//! construction: cubical decompositions of T^3, S^2 x S^1, S^3 and RP^3 and connected sums /
//! handles obtained by removing two cube tiles and gluing their neighbours across.
//! They pass the orbifold-invariant filter of the euclidicity test whenever their first homology
//! is that of a flat manifold, and so reach the decision branches behind simplification.
use crate::gen::dsym3::{has_spherical_links, product};
use crate::model::DS;

/// the sphere tiled by two k-gons glued along their boundary (2D, all v = 1)
pub fn dihedron(k: usize) -> DS {
    let n = 2 * k;
    let idx = |f: usize, j: usize| f * n + j + 1;
    let mut ds = DS::new(2, 2 * n);
    for f in 0..2 {
        for j in 0..n {
            let d = idx(f, j);
            ds.op[0][d] = idx(f, j ^ 1);
            ds.op[1][d] = idx(f, if j % 2 == 1 { (j + 1) % n } else { (j + n - 1) % n });
            ds.op[2][d] = idx(1 - f, j);
        }
    }
    for i in 0..2 {
        for d in 1..=ds.size {
            ds.v[i][d] = 1;
        }
    }
    ds
}

/// the torus tiled by a x b squares (2D, all v = 1)
pub fn square_torus(a: usize, b: usize) -> DS {
    let idx = |x: usize, y: usize, j: usize| (y * a + x) * 8 + j + 1;
    let mut ds = DS::new(2, 8 * a * b);
    for y in 0..b {
        for x in 0..a {
            for j in 0..8 {
                let d = idx(x, y, j);
                ds.op[0][d] = idx(x, y, j ^ 1);
                ds.op[1][d] = idx(x, y, if j % 2 == 1 { (j + 1) % 8 } else { (j + 7) % 8 });
                let (e, s) = (j / 2, j % 2);
                let (nx, ny) = match e {
                    0 => (x, (y + b - 1) % b),
                    1 => ((x + 1) % a, y),
                    2 => (x, (y + 1) % b),
                    _ => ((x + a - 1) % a, y),
                };
                ds.op[2][d] = idx(nx, ny, 2 * ((e + 2) % 4) + (1 - s));
            }
        }
    }
    for i in 0..2 {
        for d in 1..=ds.size {
            ds.v[i][d] = 1;
        }
    }
    ds
}

/// the circle cut into n intervals, as the two involutions of `product` (0-based)
pub fn circle(n: usize) -> (Vec<usize>, Vec<usize>) {
    let m = 2 * n;
    ((0..m).map(|j| j ^ 1).collect(), (0..m).map(|j| if j % 2 == 1 { (j + 1) % m } else { (j + m - 1) % m }).collect())
}

fn permutations(n: usize) -> Vec<Vec<usize>> {
    fn rec(cur: &mut Vec<usize>, used: &mut Vec<bool>, n: usize, out: &mut Vec<Vec<usize>>) {
        if cur.len() == n {
            out.push(cur.clone());
            return;
        }
        for i in 0..n {
            if !used[i] {
                used[i] = true;
                cur.push(i);
                rec(cur, used, n, out);
                cur.pop();
                used[i] = false;
            }
        }
    }
    let mut out = vec![];
    rec(&mut vec![], &mut vec![false; n], n, &mut out);
    out
}

/// The boundary complex of the n-cube as an (n-1)-dimensional D-symbol (all v = 1): a flag is
/// (vertex x in {0,1}^n, order pi in which the coordinates become free); op_0 flips x at pi(0),
/// op_i swaps pi(i-1) and pi(i). With `antipodal`, flags are identified under x -> complement.
pub fn cube_boundary(n: usize, antipodal: bool) -> DS {
    let perms = permutations(n);
    let pidx = |p: &Vec<usize>| perms.iter().position(|q| q == p).unwrap();
    let full = (1usize << n) - 1;
    let norm = |x: usize| if antipodal && x & 1 == 1 { x ^ full } else { x };
    // vertices kept: all, or those with bit 0 clear
    let verts: Vec<usize> = (0..=full).filter(|&x| norm(x) == x).collect();
    let vpos = |x: usize| verts.iter().position(|&y| y == norm(x)).unwrap();
    let idx = |x: usize, p: usize| vpos(x) * perms.len() + p + 1;
    let mut ds = DS::new(n - 1, verts.len() * perms.len());
    for &x in &verts {
        for (p, pi) in perms.iter().enumerate() {
            let d = idx(x, p);
            ds.op[0][d] = idx(x ^ (1 << pi[0]), p);
            for i in 1..n {
                let mut q = pi.clone();
                q.swap(i - 1, i);
                ds.op[i][d] = idx(x, pidx(&q));
            }
        }
    }
    for i in 0..(n - 1) {
        for d in 1..=ds.size {
            ds.v[i][d] = 1;
        }
    }
    ds
}

pub fn disjoint_union(a: &DS, b: &DS) -> DS {
    assert!(a.dim == b.dim);
    let mut out = DS::new(a.dim, a.size + b.size);
    for i in 0..=a.dim {
        for d in 1..=a.size {
            out.op[i][d] = a.op[i][d];
        }
        for d in 1..=b.size {
            out.op[i][a.size + d] = a.size + b.op[i][d];
        }
    }
    for i in 0..a.dim {
        for d in 1..=a.size {
            out.v[i][d] = a.v[i][d];
        }
        for d in 1..=b.size {
            out.v[i][a.size + d] = b.v[i][d];
        }
    }
    out
}

/// is the symbol a closed 3-manifold decomposition: complete, commuting, all v = 1, no implicit
/// branching, tiles and vertex figures spheres
pub fn is_manifold_symbol(ds: &DS) -> bool {
    ds.dim == 3
        && ds.is_complete()
        && ds.ops_are_involutions()
        && ds.commutes()
        && (0..3).all(|i| (1..=ds.size).all(|d| ds.v[i][d] == 1))
        && (0..=3).all(|i| ((i + 2)..=3).all(|j| (1..=ds.size).all(|d| ds.r(i, j, d) == 2)))
        && has_spherical_links(ds)
}

/// Remove the tiles (0,1,2-components) of the chambers c1 and c2 and glue the neighbours of the
/// first across to the neighbours of the second along the isomorphism of tile boundaries that
/// maps c1 to c2. On a disjoint union this is the connected sum; within one manifold it attaches
/// a handle. Err if the tiles are not isomorphic, touch themselves or each other, or the result
/// is not a manifold symbol (a tile that meets a vertex twice).
pub fn surgery(ds: &DS, c1: usize, c2: usize) -> Result<DS, String> {
    let t1 = ds.component(&[0, 1, 2], c1);
    let t2 = ds.component(&[0, 1, 2], c2);
    if t1.len() != t2.len() || t1.contains(&c2) {
        return Err("tiles differ in size or coincide".into());
    }
    // isomorphism t1 -> t2 with c1 -> c2 (operations 0, 1, 2)
    let mut phi = vec![0usize; ds.size + 1];
    phi[c1] = c2;
    let mut queue = std::collections::VecDeque::from([c1]);
    while let Some(d) = queue.pop_front() {
        for i in 0..3 {
            let (e, f) = (ds.op[i][d], ds.op[i][phi[d]]);
            if phi[e] == 0 {
                phi[e] = f;
                queue.push_back(e);
            } else if phi[e] != f {
                return Err("tiles are not isomorphic".into());
            }
        }
    }
    let mut inv = vec![0usize; ds.size + 1];
    for &d in &t1 {
        if phi[d] == 0 || inv[phi[d]] != 0 {
            return Err("tiles are not isomorphic".into());
        }
        inv[phi[d]] = d;
    }
    let mut gone = vec![false; ds.size + 1];
    for &d in t1.iter().chain(t2.iter()) {
        gone[d] = true;
    }
    if t1.iter().chain(t2.iter()).any(|&d| gone[ds.op[3][d]]) {
        return Err("a removed tile is adjacent to a removed tile".into());
    }
    let mut new = vec![0usize; ds.size + 1];
    let mut n = 0;
    for d in 1..=ds.size {
        if !gone[d] {
            n += 1;
            new[d] = n;
        }
    }
    let mut out = DS::new(3, n);
    for d in 1..=ds.size {
        if gone[d] {
            continue;
        }
        for i in 0..3 {
            out.op[i][new[d]] = new[ds.op[i][d]];
        }
        let e = ds.op[3][d];
        let partner = if !gone[e] {
            e
        } else if phi[e] != 0 {
            ds.op[3][phi[e]]
        } else {
            ds.op[3][inv[e]]
        };
        out.op[3][new[d]] = new[partner];
    }
    for i in 0..3 {
        for d in 1..=n {
            out.v[i][d] = 1;
        }
    }
    if !is_manifold_symbol(&out) {
        return Err("the result is not a manifold symbol".into());
    }
    Ok(out)
}

pub fn connected_sum(a: &DS, ca: usize, b: &DS, cb: usize) -> Result<DS, String> {
    surgery(&disjoint_union(a, b), ca, a.size + cb)
}

/// T^3 as 2 x 2 x 2 cubes (384 chambers)
pub fn t3() -> DS {
    let (t0, t1) = circle(2);
    product(&square_torus(2, 2), &t0, &t1)
}

/// S^2 x S^1 as 2 layers of 2 square prisms (192 chambers)
pub fn s2xs1() -> DS {
    let (t0, t1) = circle(2);
    product(&dihedron(4), &t0, &t1)
}

/// S^3 as the boundary of the 4-cube (8 cubes, 384 chambers)
pub fn s3() -> DS {
    cube_boundary(4, false)
}

/// RP^3 as the boundary of the 4-cube modulo the antipodal map (4 cubes, 192 chambers)
pub fn rp3() -> DS {
    cube_boundary(4, true)
}

/// What is known about a manifold of the corpus
#[derive(Clone, Debug, PartialEq, Eq)]
pub enum Known {
    /// homeomorphic to the 3-torus: a periodic tiling of euclidean space
    Torus,
    /// a closed manifold that is not flat (reducible, or finite fundamental group)
    NotFlat,
}

/// first chamber of each tile
pub fn tile_reps(ds: &DS) -> Vec<usize> {
    ds.components(&[0, 1, 2]).iter().map(|c| c[0]).collect()
}

/// The corpus: (symbol, name, what is known). `pick` selects gluing chambers deterministically.
pub fn corpus(pick: u32, large: bool) -> Vec<(DS, String, Known)> {
    let p = |k: u32, n: usize| ((pick.wrapping_mul(2654435761).wrapping_add(k.wrapping_mul(40503))) as usize) % n;
    let mut out: Vec<(DS, String, Known)> = vec![];
    let (sx, rp, s3_, t3_) = (s2xs1(), rp3(), s3(), t3());
    out.push((sx.clone(), "S^2 x S^1 (2 layers of 2 square prisms)".into(), Known::NotFlat));
    out.push((rp.clone(), "RP^3 (4 cubes)".into(), Known::NotFlat));
    out.push((t3_.clone(), "T^3 (2 x 2 x 2 cubes)".into(), Known::Torus));
    // each connected sum with a pseudo-random choice of the chambers glued (48 x 48 x tiles)
    let sum = |a: &DS, b: &DS, k: u32| -> Option<DS> {
        for t in 0..20u32 {
            let ca = 1 + p(k + 97 * t, a.size);
            let cb = 1 + p(k + 97 * t + 1, b.size);
            if let Ok(s) = connected_sum(a, ca, b, cb) {
                return Some(s);
            }
        }
        None
    };
    if let Some(s) = sum(&sx, &rp, 1) {
        out.push((s, "S^2 x S^1 # RP^3 (fundamental group Z * Z_2, a 4-sheeted cover is #3 S^2 x S^1)".into(), Known::NotFlat));
    }
    if let Some(s2) = sum(&sx, &sx, 2) {
        if let Some(s3x) = sum(&s2, &sx, 3) {
            out.push((s3x, "#3 S^2 x S^1 (free fundamental group of rank 3, H1 = Z^3)".into(), Known::NotFlat));
        }
    }
    if large {
        if let Some(s) = sum(&t3_, &s3_, 4) {
            out.push((s, "T^3 # S^3 (homeomorphic to T^3)".into(), Known::Torus));
        }
        if let Some(s) = sum(&rp, &rp, 5) {
            out.push((s, "RP^3 # RP^3".into(), Known::NotFlat));
        }
        if let Some(s) = sum(&s3_, &sx, 6) {
            out.push((s, "S^3 # S^2 x S^1".into(), Known::NotFlat));
        }
        // the flat manifold with holonomy Z6 (6_1 screw axis; H1 = Z) tiled by triangular prisms, and
        // connected sums whose first homology is Z^3 although they are not tori: they pass the
        // invariant filter and are their own pseudo-toroidal cover, and simplification cannot
        // collapse the flat summand
        let g5 = crate::gen::prismatic::prism_quotient(&crate::gen::prismatic::triangle_torus(3), 6, &[(6, 2)]).0;
        let (t0, t1) = circle(2);
        let sxt = product(&dihedron(3), &t0, &t1);
        if is_manifold_symbol(&g5) && is_manifold_symbol(&sxt) {
            if let Some(a) = sum(&g5, &sxt, 7) {
                if let Some(b) = sum(&a, &sxt, 8) {
                    out.push((b, "G5 # 2 (S^2 x S^1) (G5 = flat manifold with holonomy Z6; H1 = Z^3, not a torus)".into(), Known::NotFlat));
                }
            }
            // (G5 # G5 # S^2 x S^1 and G5 # G5 # G5 also have H1 = Z^3 and end in the "connected sum"
            // branch, but the low-index search over the free product inside pseudo_toroidal_cover
            // takes 10 minutes and more per call: probed once by hand, not part of the corpus)
        }
    }
    out
}


/// One cube whose opposite faces are glued by translation composed with a rotation by twist * 90
/// degrees about the axis (twists per axis in 0..4): 64 D-sets with 48 chambers that share the tile
/// structure (operations 0, 1, 2 and the numbering are identical) and differ only in the gluing
/// (operation 3). Those that are manifolds include the 3-torus (0,0,0), the quarter-turn and half-turn
/// flat manifolds and spherical space forms such as the quaternion space (1,1,1).
pub fn cube_gluing(twist: [usize; 3]) -> DS {
    let perms: [[usize; 3]; 6] = [[0, 1, 2], [0, 2, 1], [1, 0, 2], [1, 2, 0], [2, 0, 1], [2, 1, 0]];
    let id = |x: [usize; 3], p: [usize; 3]| -> usize { 1 + (x[0] + 2 * x[1] + 4 * x[2]) * 6 + perms.iter().position(|q| *q == p).unwrap() };
    let mut ds = DS::new(3, 48);
    for xb in 0..8usize {
        let x = [xb & 1, (xb >> 1) & 1, (xb >> 2) & 1];
        for p in perms {
            let d = id(x, p);
            let mut x0 = x;
            x0[p[0]] ^= 1;
            ds.op[0][d] = id(x0, p);
            ds.op[1][d] = id(x, [p[1], p[0], p[2]]);
            ds.op[2][d] = id(x, [p[0], p[2], p[1]]);
            // the face: axis a = p[2], side x[a]; the other axes b < c
            let a = p[2];
            let (b, c) = match a { 0 => (1, 2), 1 => (0, 2), _ => (0, 1) };
            // side 0 -> side 1 with rho^t, side 1 -> side 0 with rho^-t, rho (u, v) = (1 - v, u)
            let t = if x[a] == 0 { twist[a] % 4 } else { (4 - twist[a] % 4) % 4 };
            let (mut u, mut v) = (x[b], x[c]);
            let mut q = p;
            for _ in 0..t {
                let (nu, nv) = (1 - v, u);
                u = nu;
                v = nv;
                for k in 0..2 {
                    q[k] = if q[k] == b { c } else { b };
                }
            }
            let mut y = x;
            y[a] = 1 - x[a];
            y[b] = u;
            y[c] = v;
            ds.op[3][d] = id(y, q);
        }
    }
    for i in 0..3 {
        for d in 1..=48 {
            ds.v[i][d] = 1;
        }
    }
    ds
}
