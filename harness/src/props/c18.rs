//! C18 — exact linear algebra agrees with rational arithmetic for every backend
use crate::ensure;
use crate::oracle::linalg::*;
use crate::runner::*;
use crate::util::*;
use num_bigint::BigInt;
use num_rational::BigRational;
use num_traits::{One, Zero};
use proptest::prelude::*;
use rust_dsymbols::geometry::matrix::Matrix;
use rust_dsymbols::geometry::modular_solver;
use rust_dsymbols::geometry::prime_residue_classes::PrimeResidueClass;
use rust_dsymbols::geometry::traits::{Array2d, Entry, ScalarPtr};
use rust_dsymbols::geometry::vec_matrix::VecMatrix;
use rust_dsymbols::pgraphs::{PeriodicGraph, VectorLabelledEdge};
use serde_json::{json, Value};
use std::fmt::Debug;

pub const PRIMES: [i64; 5] = [2, 3, 61, 9_999_991, 3_037_000_493];
const BACKENDS: [&str; 7] = ["i64", "BigRational", "Z/2", "Z/3", "Z/61", "Z/9999991", "Z/3037000493"];

// ---------------------------------------------------------------------------
// backends

trait Backend {
    type T: Entry + Clone + Debug + PartialEq;
    type F: Field;
    const IS_FIELD: bool;
    fn field() -> Self::F;
    fn lift(x: i64) -> Self::T;
    fn lower(x: &Self::T) -> Result<<Self::F as Field>::E, String>;
}

struct BI64;
impl Backend for BI64 {
    type T = i64;
    type F = Q;
    const IS_FIELD: bool = false;
    fn field() -> Q {
        Q
    }
    fn lift(x: i64) -> i64 {
        x
    }
    fn lower(x: &i64) -> Result<BigRational, String> {
        Ok(Q.from_i64(*x))
    }
}

struct BQ;
impl Backend for BQ {
    type T = BigRational;
    type F = Q;
    const IS_FIELD: bool = true;
    fn field() -> Q {
        Q
    }
    fn lift(x: i64) -> BigRational {
        BigRational::from_integer(BigInt::from(x))
    }
    fn lower(x: &BigRational) -> Result<BigRational, String> {
        Ok(x.clone())
    }
}

struct BP<const P: i64>;
impl<const P: i64> Backend for BP<P> {
    type T = PrimeResidueClass<P>;
    type F = Fp;
    const IS_FIELD: bool = true;
    fn field() -> Fp {
        Fp(P)
    }
    fn lift(x: i64) -> PrimeResidueClass<P> {
        PrimeResidueClass::<P>::from(x)
    }
    fn lower(x: &PrimeResidueClass<P>) -> Result<i64, String> {
        let v = i64::from(*x);
        ensure!(v >= 0 && v < P, "residue class mod {} holds the non-canonical representative {}", P, v);
        Ok(v)
    }
}

// ---------------------------------------------------------------------------
// cases

#[derive(Clone, Debug, Hash)]
pub struct MatCase {
    pub backend: u8,
    pub twin: bool,
    pub rows: usize,
    pub cols: usize,
    pub a: Vec<i64>,
    pub k: usize,
    pub b: Vec<i64>,
}

impl Case for MatCase {
    fn encode(&self) -> Value {
        json!({
            "backend": BACKENDS[self.backend as usize], "type": if self.twin { "Matrix<T,N,M>" } else { "VecMatrix<T>" },
            "rows": self.rows, "cols": self.cols,
            "a": self.a.chunks(self.cols.max(1)).map(|r| r.to_vec()).collect::<Vec<_>>(),
            "k": self.k,
            "b": self.b.chunks(self.k.max(1)).map(|r| r.to_vec()).collect::<Vec<_>>(),
        })
    }
    fn decode(v: &Value) -> Option<Self> {
        let backend = BACKENDS.iter().position(|k| Some(*k) == v.get("backend").and_then(|x| x.as_str()))? as u8;
        let flat = |key: &str| -> Option<Vec<i64>> { Some(v.get(key)?.as_array()?.iter().filter_map(dec_ints).flatten().collect()) };
        Some(MatCase {
            backend,
            twin: v.get("type")?.as_str()? != "VecMatrix<T>",
            rows: v.get("rows")?.as_u64()? as usize,
            cols: v.get("cols")?.as_u64()? as usize,
            a: flat("a")?,
            k: v.get("k")?.as_u64()? as usize,
            b: flat("b")?,
        })
    }
    fn weight(&self) -> usize {
        self.rows * self.cols
    }
    fn hash64(&self) -> u64 {
        h64(self)
    }
}

fn vecmat<B: Backend>(rows: usize, cols: usize, a: &[i64]) -> VecMatrix<B::T>
where
    for<'a> &'a B::T: ScalarPtr<B::T>,
{
    let mut m = VecMatrix::<B::T>::new(rows, cols);
    // a quarter of the matrices (chosen by a hash of the entries) are values with a HISTORY: other
    // entries first, every routine once, then the final entries through IndexMut and two row swaps
    if h64(&(rows, cols, a)) % 4 == 0 {
        for i in 0..rows {
            for j in 0..cols {
                m[i][j] = B::lift(if (i + j) % 2 == 0 { a[i * cols + j].wrapping_add(1) % 1000 } else { 0 });
            }
        }
        let _ = guarded(|| {
            let _ = m.rank();
            let _ = m.null_space_matrix();
            if rows == cols {
                let _ = m.determinant();
                let _ = m.inverse();
            }
            let _ = m.clone();
        });
        if rows >= 2 {
            m.swap_rows(0, rows - 1);
        }
    }
    for i in 0..rows {
        for j in 0..cols {
            m[i][j] = B::lift(a[i * cols + j]);
        }
    }
    m
}

fn lower_vec<B: Backend>(m: &VecMatrix<B::T>) -> Result<M<<B::F as Field>::E>, String> {
    let mut out = vec![];
    for i in 0..m.nr_rows() {
        let mut r = vec![];
        for j in 0..m.nr_columns() {
            r.push(B::lower(&m[(i, j)])?);
        }
        out.push(r);
    }
    Ok(out)
}

fn is_zero_mat<F: Field>(f: &F, m: &M<F::E>) -> bool {
    m.iter().flatten().all(|x| f.is_zero(x))
}

fn transpose<E: Clone>(m: &M<E>, cols: usize) -> M<E> {
    (0..cols).map(|j| m.iter().map(|r| r[j].clone()).collect()).collect()
}

/// the part of the oracle shared by both twins
struct Truth<F: Field> {
    f: F,
    a: M<F::E>,
    b: M<F::E>,
    rank: usize,
    det: Option<F::E>,
    consistent: bool,
    unimodular: bool,
}

fn truth<B: Backend>(c: &MatCase, obs: &mut Obs) -> Truth<B::F> {
    let f = B::field();
    let a = lift(&f, c.rows, c.cols, &c.a);
    let b = lift(&f, c.rows, c.k, &c.b);
    let e = rref(&f, &a);
    let det = if c.rows == c.cols { Some(e.det.clone()) } else { None };
    let cons = consistent(&f, &a, &b);
    let dz = if c.rows == c.cols { det_bareiss(c.rows, &c.a) } else { BigInt::zero() };
    let unimodular = c.rows == c.cols && (dz.is_one() || (-&dz).is_one());
    obs.nontrivial(c.rows != c.cols || e.rank < c.rows.min(c.cols) || c.a.iter().any(|&x| x < 0));
    obs.classify(c.rows < c.cols, "wide");
    obs.classify(c.rows > c.cols, "tall");
    obs.classify(e.rank < c.rows.min(c.cols), "rank deficient");
    obs.classify(e.rank == c.rows && c.rows < c.cols, "wide with full row rank");
    obs.classify(unimodular, "unimodular");
    obs.classify(cons, "consistent rhs");
    obs.classify(!cons, "inconsistent rhs");
    obs.classify(c.a.iter().any(|&x| x < 0), "negative entry");
    obs.class(&format!("backend {}", BACKENDS[c.backend as usize]));
    Truth { f, a, b, rank: e.rank, det, consistent: cons, unimodular }
}

fn check_null<F: Field>(t: &Truth<F>, cols: usize, n: &M<F::E>, what: &str) -> Result<(), String> {
    // n is cols x d
    let d = cols - t.rank;
    ensure!(n.len() == cols, "{}: {} rows, expected {}", what, n.len(), cols);
    ensure!(n.iter().all(|r| r.len() == d), "{}: expected {} = columns - rank columns, got {:?}", what, d, n.first().map(|r| r.len()));
    if d > 0 {
        ensure!(is_zero_mat(&t.f, &matmul(&t.f, &t.a, n)), "{}: A * N != 0 (N = {:?})", what, n);
        let r = rank(&t.f, &transpose(n, d));
        ensure!(r == d, "{}: columns are dependent (rank {} of {})", what, r, d);
    }
    Ok(())
}

fn check_vec<B: Backend>(c: &MatCase, obs: &mut Obs) -> Result<(), String>
where
    for<'a> &'a B::T: ScalarPtr<B::T>,
{
    let t = truth::<B>(c, obs);
    let a = vecmat::<B>(c.rows, c.cols, &c.a);
    let b = vecmat::<B>(c.rows, c.k, &c.b);
    // rank
    let r = a.rank();
    ensure!(r == t.rank, "rank() = {}, exact rank = {}", r, t.rank);
    // determinant
    if let Some(d) = &t.det {
        let got = B::lower(&a.determinant())?;
        ensure!(&got == d, "determinant() = {:?}, exact value {:?}", got, d);
    }
    // null space, both forms
    let ns = a.null_space();
    ensure!(ns.len() == c.cols - t.rank, "null_space() has {} vectors, expected columns - rank = {}", ns.len(), c.cols - t.rank);
    let mut cols_n: M<<B::F as Field>::E> = vec![vec![]; c.cols];
    for v in &ns {
        ensure!(v.nr_rows() == c.cols && v.nr_columns() == 1, "null_space() vector has shape {}x{}", v.nr_rows(), v.nr_columns());
        let lv = lower_vec::<B>(v)?;
        for i in 0..c.cols {
            cols_n[i].push(lv[i][0].clone());
        }
    }
    check_null(&t, c.cols, &cols_n, "null_space()")?;
    let nm = a.null_space_matrix();
    ensure!(nm.nr_columns() == c.cols - t.rank, "null_space_matrix() has {} columns, expected {}", nm.nr_columns(), c.cols - t.rank);
    ensure!(nm.nr_rows() == c.cols, "null_space_matrix() has {} rows for a matrix with {} columns (shape {}x{})", nm.nr_rows(), c.cols, nm.nr_rows(), nm.nr_columns());
    if c.cols - t.rank > 0 {
        check_null(&t, c.cols, &lower_vec::<B>(&nm)?, "null_space_matrix()")?;
    }
    // the kernel matrix fed back into the crate: its columns are independent, so its transpose has a kernel
    // of dimension rank(A); the result of solve() has the shape that lets it be stacked next to the kernel
    {
        // (not guarded: a panic is judged by the runner like one of the calls above - machine-integer overflow is a discard)
        let back = nm.transpose().null_space_matrix();
        ensure!(back.nr_columns() == t.rank && back.nr_rows() == c.cols, "the transpose of null_space_matrix() ({}x{}) has a kernel matrix of shape {}x{}, expected {}x{} (the kernel columns are independent)", nm.nr_columns(), nm.nr_rows(), back.nr_rows(), back.nr_columns(), c.cols, t.rank);
        let r2 = nm.rank();
        ensure!(r2 == c.cols - t.rank, "rank(null_space_matrix()) = {}, expected columns - rank = {}", r2, c.cols - t.rank);
        let stacked = VecMatrix::<B::T>::identity(c.cols).hstack(&nm);
        ensure!(stacked.nr_rows() == c.cols && stacked.nr_columns() == 2 * c.cols - t.rank, "hstack(identity, null_space_matrix()) has shape {}x{}", stacked.nr_rows(), stacked.nr_columns());
    }
    // solve
    match a.solve(&b) {
        Some(x) => {
            ensure!(x.nr_rows() == c.cols && x.nr_columns() == c.k, "solve() result has shape {}x{}", x.nr_rows(), x.nr_columns());
            let lx = lower_vec::<B>(&x)?;
            ensure!(matmul(&t.f, &t.a, &lx) == t.b, "solve() returned X with A * X != B (X = {:?})", lx);
            ensure!(t.consistent, "harness: solution verified but oracle says inconsistent");
        }
        None => {
            if B::IS_FIELD {
                ensure!(!t.consistent, "solve() = None although the system is consistent over the field");
            } else if t.unimodular {
                return Err("solve() = None for a unimodular integer matrix (the rational solution is integral)".into());
            }
        }
    }
    // inverse
    if c.rows == c.cols {
        let singular = t.f.is_zero(t.det.as_ref().unwrap());
        match a.inverse() {
            Some(inv) => {
                let li = lower_vec::<B>(&inv)?;
                let id: M<_> = (0..c.rows).map(|i| (0..c.rows).map(|j| if i == j { t.f.one() } else { t.f.zero() }).collect()).collect();
                ensure!(matmul(&t.f, &t.a, &li) == id, "inverse() returned a matrix with A * inv != 1");
                ensure!(!singular, "inverse() = Some for a singular matrix");
            }
            None => {
                if B::IS_FIELD {
                    ensure!(singular, "inverse() = None for a non-singular matrix");
                } else if t.unimodular {
                    return Err("inverse() = None for a unimodular integer matrix".into());
                }
            }
        }
    }
    Ok(())
}

// --- const-generic twin through the cfg-gated hook

fn twinmat<B: Backend, const N: usize, const MM: usize>(a: &[i64]) -> Matrix<B::T, N, MM> {
    let mut m = Matrix::<B::T, N, MM>::new();
    for i in 0..N {
        for j in 0..MM {
            m[i][j] = B::lift(a[i * MM + j]);
        }
    }
    m
}

fn lower_twin<B: Backend, const N: usize, const MM: usize>(m: &Matrix<B::T, N, MM>) -> Result<M<<B::F as Field>::E>, String> {
    let mut out = vec![];
    for i in 0..N {
        let mut r = vec![];
        for j in 0..MM {
            r.push(B::lower(&m[(i, j)])?);
        }
        out.push(r);
    }
    Ok(out)
}

const TWIN_K: usize = 2;

fn check_twin<B: Backend, const N: usize, const MM: usize>(c: &MatCase, obs: &mut Obs) -> Result<(), String>
where
    for<'a> &'a B::T: ScalarPtr<B::T>,
{
    let t = truth::<B>(c, obs);
    let a = twinmat::<B, N, MM>(&c.a);
    let b = twinmat::<B, N, TWIN_K>(&c.b);
    let r = a.verif_rank();
    ensure!(r == t.rank, "Matrix::rank() = {}, exact rank = {}", r, t.rank);
    let ns = a.verif_null_space();
    ensure!(ns.len() == MM - t.rank, "Matrix::null_space() has {} vectors, expected {}", ns.len(), MM - t.rank);
    let mut cols_n: M<<B::F as Field>::E> = vec![vec![]; MM];
    for v in &ns {
        let lv = lower_twin::<B, MM, 1>(v)?;
        for i in 0..MM {
            cols_n[i].push(lv[i][0].clone());
        }
    }
    check_null(&t, MM, &cols_n, "Matrix::null_space()")?;
    match a.verif_solve::<TWIN_K>(&b) {
        Some(x) => {
            let lx = lower_twin::<B, MM, TWIN_K>(&x)?;
            ensure!(matmul(&t.f, &t.a, &lx) == t.b, "Matrix::solve() returned X with A * X != B (X = {:?})", lx);
        }
        None => {
            if B::IS_FIELD {
                ensure!(!t.consistent, "Matrix::solve() = None although the system is consistent over the field");
            } else if t.unimodular {
                return Err("Matrix::solve() = None for a unimodular integer matrix".into());
            }
        }
    }
    Ok(())
}

fn check_twin_square<B: Backend, const N: usize>(c: &MatCase, obs: &mut Obs) -> Result<(), String>
where
    for<'a> &'a B::T: ScalarPtr<B::T>,
{
    check_twin::<B, N, N>(c, obs)?;
    let mut scratch = Obs::default();
    let t = truth::<B>(c, &mut scratch);
    let a = twinmat::<B, N, N>(&c.a);
    let d = t.det.clone().unwrap();
    let got = B::lower(&a.verif_determinant())?;
    ensure!(got == d, "Matrix::determinant() = {:?}, exact value {:?}", got, d);
    let singular = t.f.is_zero(&d);
    match a.verif_inverse() {
        Some(inv) => {
            let li = lower_twin::<B, N, N>(&inv)?;
            let id: M<_> = (0..N).map(|i| (0..N).map(|j| if i == j { t.f.one() } else { t.f.zero() }).collect()).collect();
            ensure!(matmul(&t.f, &t.a, &li) == id, "Matrix::inverse() returned a matrix with A * inv != 1");
            ensure!(!singular, "Matrix::inverse() = Some for a singular matrix");
        }
        None => {
            if B::IS_FIELD {
                ensure!(singular, "Matrix::inverse() = None for a non-singular matrix");
            } else if t.unimodular {
                return Err("Matrix::inverse() = None for a unimodular integer matrix".into());
            }
        }
    }
    Ok(())
}

pub const TWIN_SHAPES: [(usize, usize); 14] = [(1, 1), (2, 2), (3, 3), (4, 4), (5, 5), (6, 6), (1, 3), (3, 1), (2, 3), (3, 2), (2, 5), (5, 2), (4, 6), (6, 3)];

fn dispatch_twin<B: Backend>(c: &MatCase, obs: &mut Obs) -> Result<(), String>
where
    for<'a> &'a B::T: ScalarPtr<B::T>,
{
    ensure!(c.k == TWIN_K, "harness: twin cases use {} right-hand columns", TWIN_K);
    match (c.rows, c.cols) {
        (1, 1) => check_twin_square::<B, 1>(c, obs),
        (2, 2) => check_twin_square::<B, 2>(c, obs),
        (3, 3) => check_twin_square::<B, 3>(c, obs),
        (4, 4) => check_twin_square::<B, 4>(c, obs),
        (5, 5) => check_twin_square::<B, 5>(c, obs),
        (6, 6) => check_twin_square::<B, 6>(c, obs),
        (1, 3) => check_twin::<B, 1, 3>(c, obs),
        (3, 1) => check_twin::<B, 3, 1>(c, obs),
        (2, 3) => check_twin::<B, 2, 3>(c, obs),
        (3, 2) => check_twin::<B, 3, 2>(c, obs),
        (2, 5) => check_twin::<B, 2, 5>(c, obs),
        (5, 2) => check_twin::<B, 5, 2>(c, obs),
        (4, 6) => check_twin::<B, 4, 6>(c, obs),
        (6, 3) => check_twin::<B, 6, 3>(c, obs),
        _ => Err("harness: shape without a const-generic twin".into()),
    }
}

fn check_matrix(c: &MatCase, obs: &mut Obs) -> Result<(), String> {
    ensure!(c.rows >= 1 && c.cols >= 1 && c.k >= 1 && c.a.len() == c.rows * c.cols && c.b.len() == c.rows * c.k, "harness: malformed case");
    obs.classify(c.twin, "const-generic twin");
    macro_rules! go {
        ($b:ty) => {
            if c.twin { dispatch_twin::<$b>(c, obs) } else { check_vec::<$b>(c, obs) }
        };
    }
    match c.backend {
        0 => go!(BI64),
        1 => go!(BQ),
        2 => go!(BP<2>),
        3 => go!(BP<3>),
        4 => go!(BP<61>),
        5 => go!(BP<9_999_991>),
        _ => go!(BP<3_037_000_493>),
    }
}

pub const SUB_MATRIX: Sub<MatCase> = Sub {
    name: "matrix",
    rule: "(backend, VecMatrix or const-generic Matrix, A rows x cols, B rows x k): rank, determinant, null space (both forms), solve, inverse against Gaussian elimination over Q / Z/p and a Bareiss determinant; non-trivial = non-square, or rank-deficient, or a negative entry",
    check: check_matrix,
    panic_discards: &["with overflow"],
    journal: false,
};

// ---------------------------------------------------------------------------
// residue classes

#[derive(Clone, Debug, Hash)]
pub struct ResCase {
    pub p: u8,
    pub n: i64,
    pub m: i64,
}

impl Case for ResCase {
    fn encode(&self) -> Value {
        json!({"p": PRIMES[self.p as usize], "n": self.n, "m": self.m})
    }
    fn decode(v: &Value) -> Option<Self> {
        let p = PRIMES.iter().position(|&q| Some(q) == v.get("p").and_then(|x| x.as_i64()))? as u8;
        Some(ResCase { p, n: v.get("n")?.as_i64()?, m: v.get("m")?.as_i64()? })
    }
    fn hash64(&self) -> u64 {
        h64(self)
    }
}

fn residue<const P: i64>(c: &ResCase, obs: &mut Obs) -> Result<(), String> {
    type R<const P: i64> = PrimeResidueClass<P>;
    let f = Fp(P);
    let (n, m) = (c.n, c.m);
    let (en, em) = (f.from_i64(n), f.from_i64(m));
    obs.nontrivial(n < 0 || m < 0);
    obs.classify(n < 0 && en == 0, "negative multiple of the modulus");
    obs.classify(n != 0 && en == 0, "non-zero multiple of the modulus");
    let a: R<P> = n.into();
    let b: R<P> = m.into();
    let val = |x: R<P>, what: &str| -> Result<i64, String> {
        let v = i64::from(x);
        ensure!(v >= 0 && v < P, "{}: representative {} is not in [0, {})", what, v, P);
        Ok(v)
    };
    ensure!(val(a, &format!("from({}i64)", n))? == en, "from({}i64) = {}, expected {} mod {}", n, i64::from(a), en, P);
    if let Ok(n32) = i32::try_from(n) {
        let a32: R<P> = n32.into();
        ensure!(val(a32, &format!("from({}i32)", n32))? == en, "from({}i32) = {}, expected {}", n32, i64::from(a32), en);
        ensure!(a32 == a, "from(i32) and from(i64) give different values for {}", n);
    }
    let ab: R<P> = BigInt::from(n).into();
    ensure!(val(ab, &format!("from(BigInt {})", n))? == en, "from(BigInt {}) = {}, expected {}", n, i64::from(ab), en);
    ensure!(BigInt::from(a) == BigInt::from(en), "BigInt::from(class) wrong");
    // integers beyond 64 and 128 bits, of both signs, built from the two numbers of the case
    for big in [
        BigInt::from(n) * (BigInt::from(1) << 64usize) + BigInt::from(c.m),
        BigInt::from(c.m) * (BigInt::from(1) << 130usize) - BigInt::from(n) * (BigInt::from(1) << 64usize) + BigInt::from(n),
        (BigInt::from(1) << 64usize) * BigInt::from(if n < 0 { -1 } else { 1 }),
    ] {
        let pp = BigInt::from(P);
        let expect = ((&big % &pp) + &pp) % &pp;
        let got: R<P> = big.clone().into();
        ensure!(BigInt::from(val(got, &format!("from(BigInt {})", big))?) == expect, "from(BigInt {}) = {}, expected {} mod {}", big, i64::from(got), expect, P);
    }
    // canonical representative: equal integers mod P give equal values
    if let Some(shifted) = n.checked_add(P).or_else(|| n.checked_sub(P)) {
        ensure!(R::<P>::from(shifted) == a, "{} and {} are congruent mod {} but compare unequal", n, shifted, P);
    }
    ensure!(a.is_zero() == (en == 0), "is_zero() = {} for {} mod {}", a.is_zero(), n, P);
    ensure!(a.is_one() == (en == 1 % P), "is_one() = {} for {} mod {}", a.is_one(), n, P);
    ensure!((a == b) == (en == em), "== disagrees with congruence for {} and {}", n, m);
    ensure!(val(a + b, "a + b")? == f.add(&en, &em), "{} + {} mod {}", n, m, P);
    ensure!(val(&a + b, "&a + b")? == f.add(&en, &em), "&a + b");
    ensure!(val(&a + &b, "&a + &b")? == f.add(&en, &em), "&a + &b");
    ensure!(val(a - b, "a - b")? == f.sub(&en, &em), "{} - {} mod {} = {}", n, m, P, i64::from(a - b));
    ensure!(val(&a - b, "&a - b")? == f.sub(&en, &em), "&a - b");
    ensure!(val(&a - &b, "&a - &b")? == f.sub(&en, &em), "&a - &b");
    ensure!(val(a * b, "a * b")? == f.mul(&en, &em), "{} * {} mod {}", n, m, P);
    ensure!(val(&a * b, "&a * b")? == f.mul(&en, &em), "&a * b");
    ensure!(val(&a * &b, "&a * &b")? == f.mul(&en, &em), "&a * &b");
    ensure!(val(-a, "-a")? == f.sub(&0, &en), "-({}) mod {} = {}", n, P, i64::from(-a));
    ensure!(val(-&a, "-&a")? == f.sub(&0, &en), "-&a");
    ensure!(val(R::<P>::zero(), "zero()")? == 0 && val(R::<P>::one(), "one()")? == 1 % P, "zero/one");
    if em != 0 {
        let q = f.mul(&en, &f.inv(&em));
        ensure!(val(a / b, "a / b")? == q, "{} / {} mod {} = {}, expected {}", n, m, P, i64::from(a / b), q);
        ensure!(val(&a / b, "&a / b")? == q, "&a / b");
        ensure!(val(&a / &b, "&a / &b")? == q, "&a / &b");
        ensure!(val(b * (R::<P>::one() / b), "b * b^-1")? == 1 % P, "b * b^-1 != 1 for b = {} mod {}", m, P);
        ensure!(val((a / b) * b, "(a/b)*b")? == en, "(a / b) * b != a");
    }
    // distributivity with a third element derived from the two
    let c3: R<P> = (n ^ m).into();
    ensure!(a * (b + c3) == a * b + a * c3, "distributivity");
    ensure!((a + b) + c3 == a + (b + c3), "associativity of +");
    ensure!((a * b) * c3 == a * (b * c3), "associativity of *");
    Ok(())
}

fn check_residue(c: &ResCase, obs: &mut Obs) -> Result<(), String> {
    match c.p {
        0 => residue::<2>(c, obs),
        1 => residue::<3>(c, obs),
        2 => residue::<61>(c, obs),
        3 => residue::<9_999_991>(c, obs),
        _ => residue::<3_037_000_493>(c, obs),
    }
}

pub const SUB_RESIDUE: Sub<ResCase> = Sub {
    name: "residue",
    rule: "(prime, n, m): conversions from i64/i32/BigInt give the canonical representative in [0,P), field operations in all operand forms agree with i128 arithmetic mod P; non-trivial = a negative input",
    check: check_residue,
    panic_discards: &[],
    journal: false,
};

// ---------------------------------------------------------------------------
// p-adic modular solver

#[derive(Clone, Debug, Hash)]
pub struct SolveCase {
    pub n: usize,
    pub k: usize,
    pub a: Vec<i64>,
    pub b: Vec<i64>,
}

impl Case for SolveCase {
    fn encode(&self) -> Value {
        json!({"n": self.n, "k": self.k, "a": self.a.chunks(self.n.max(1)).map(|r| r.to_vec()).collect::<Vec<_>>(), "b": self.b.chunks(self.k.max(1)).map(|r| r.to_vec()).collect::<Vec<_>>()})
    }
    fn decode(v: &Value) -> Option<Self> {
        let flat = |key: &str| -> Option<Vec<i64>> { Some(v.get(key)?.as_array()?.iter().filter_map(dec_ints).flatten().collect()) };
        Some(SolveCase { n: v.get("n")?.as_u64()? as usize, k: v.get("k")?.as_u64()? as usize, a: flat("a")?, b: flat("b")? })
    }
    fn weight(&self) -> usize {
        self.n * self.n
    }
    fn hash64(&self) -> u64 {
        h64(self)
    }
}

const SOLVER_PRIME: i64 = 3_037_000_493;

fn check_modsolve(c: &SolveCase, obs: &mut Obs) -> Result<(), String> {
    ensure!(c.n >= 1 && c.k >= 1 && c.a.len() == c.n * c.n && c.b.len() == c.n * c.k, "harness: malformed case");
    let a = vecmat::<BI64>(c.n, c.n, &c.a);
    let b = vecmat::<BI64>(c.n, c.k, &c.b);
    let fp = Fp(SOLVER_PRIME);
    let det_p = rref(&fp, &lift(&fp, c.n, c.n, &c.a)).det;
    let exact = solve_exact(c.n, c.k, &c.a, &c.b);
    obs.nontrivial(c.a.iter().any(|&x| x < 0) || c.b.iter().any(|&x| x < 0));
    obs.classify(det_p == 0, "singular modulo the prime");
    obs.classify(exact.is_none(), "singular over Q");
    obs.classify(c.a.iter().any(|x| x.abs() > 1_000_000), "large entries");
    obs.classify(exact.as_ref().map_or(false, |x| x.iter().flatten().any(|q| !q.is_integer())), "fractional solution");
    match modular_solver::solve(&a, &b) {
        Some(x) => {
            ensure!(x.nr_rows() == c.n && x.nr_columns() == c.k, "solution has shape {}x{}", x.nr_rows(), x.nr_columns());
            let ex = exact.ok_or_else(|| "a solution was returned for a matrix that is singular over Q".to_string())?;
            for i in 0..c.n {
                for j in 0..c.k {
                    ensure!(x[(i, j)] == ex[i][j], "solution entry ({},{}) = {}, exact rational solution has {}", i, j, x[(i, j)], ex[i][j]);
                }
            }
        }
        None => {
            ensure!(det_p == 0, "solve() = None although the matrix is non-singular modulo {}", SOLVER_PRIME);
        }
    }
    Ok(())
}

pub const SUB_MODSOLVE: Sub<SolveCase> = Sub {
    name: "modular_solver",
    rule: "(square integer A, integer B): modular_solver::solve equals the exact rational solution (own BigRational elimination) whenever A is non-singular modulo the solver's prime, None otherwise; non-trivial = a negative entry",
    check: check_modsolve,
    panic_discards: &[],
    journal: false,
};

// ---------------------------------------------------------------------------
// client: barycentric placement of periodic graphs

#[derive(Clone, Debug, Hash)]
pub struct GraphCase {
    pub dim: usize,
    /// (head, tail, shift)
    pub edges: Vec<(usize, usize, Vec<i64>)>,
}

impl Case for GraphCase {
    fn encode(&self) -> Value {
        json!({"dim": self.dim, "edges": self.edges.iter().map(|(h, t, s)| json!([h, t, s])).collect::<Vec<_>>()})
    }
    fn decode(v: &Value) -> Option<Self> {
        let mut edges = vec![];
        for e in v.get("edges")?.as_array()? {
            edges.push((e.get(0)?.as_u64()? as usize, e.get(1)?.as_u64()? as usize, dec_ints(e.get(2)?)?));
        }
        Some(GraphCase { dim: v.get("dim")?.as_u64()? as usize, edges })
    }
    fn weight(&self) -> usize {
        self.edges.len()
    }
    fn hash64(&self) -> u64 {
        h64(self)
    }
}

fn check_pgraph(c: &GraphCase, obs: &mut Obs) -> Result<(), String> {
    // precondition of the client: connected quotient graph
    let verts: std::collections::BTreeSet<usize> = c.edges.iter().flat_map(|e| [e.0, e.1]).collect();
    let mut comp: Vec<usize> = verts.iter().cloned().collect();
    let idx = |v: usize, vs: &Vec<usize>| vs.iter().position(|&x| x == v).unwrap();
    let vs: Vec<usize> = verts.iter().cloned().collect();
    let mut lab: Vec<usize> = (0..vs.len()).collect();
    for _ in 0..vs.len() {
        for e in &c.edges {
            let (a, b) = (idx(e.0, &vs), idx(e.1, &vs));
            let m = lab[a].min(lab[b]);
            lab[a] = m;
            lab[b] = m;
        }
    }
    comp.clear();
    ensure!(lab.iter().all(|&l| l == 0), "harness: graph not connected");
    let g = PeriodicGraph::from(c.edges.iter().map(|(h, t, s)| {
        let mut sh = VecMatrix::<i64>::new(c.dim, 1);
        for i in 0..c.dim {
            sh[i][0] = s[i];
        }
        VectorLabelledEdge::make(*h, *t, sh)
    }));
    let pos: std::collections::BTreeMap<usize, Vec<BigRational>> = vs
        .iter()
        .map(|&v| {
            let p = g.position(v);
            (v, (0..c.dim).map(|i| p[(i, 0)].clone()).collect())
        })
        .collect();
    // positions are cached inside the graph value: the answers must not depend on the order of the
    // queries, on repetition, or on whether a clone is asked
    {
        let g2 = PeriodicGraph::from(c.edges.iter().map(|(h, t, s)| {
            let mut sh = VecMatrix::<i64>::new(c.dim, 1);
            for i in 0..c.dim {
                sh[i][0] = s[i];
            }
            VectorLabelledEdge::make(*h, *t, sh)
        }));
        for round in 0..2 {
            for &v in vs.iter().rev() {
                let p = g2.position(v);
                let q: Vec<BigRational> = (0..c.dim).map(|i| p[(i, 0)].clone()).collect();
                ensure!(q == pos[&v], "position({}) = {:?} when the vertices are queried in descending order (round {}), {:?} in ascending order", v, q, round + 1, pos[&v]);
            }
        }
        for &v in vs.iter() {
            let p = g.position(v);
            let q: Vec<BigRational> = (0..c.dim).map(|i| p[(i, 0)].clone()).collect();
            ensure!(q == pos[&v], "position({}) changes when it is asked a second time: {:?} then {:?}", v, pos[&v], q);
        }
    }
    // first vertex pinned at the origin
    ensure!(pos[&vs[0]].iter().all(|x| x.is_zero()), "first vertex is not placed at the origin: {:?}", pos[&vs[0]]);
    // barycentric equation at every vertex over the deduplicated canonical edge set the graph reports
    let mut deg: std::collections::BTreeMap<usize, usize> = Default::default();
    let mut sum: std::collections::BTreeMap<usize, Vec<BigRational>> = vs.iter().map(|&v| (v, vec![BigRational::zero(); c.dim])).collect();
    let mut nloops = 0;
    for v in &vs {
        for e in g.incidences(*v).ok_or("vertex without incidences")? {
            let s = format!("{}", e);
            // parse "h --(a, b)-> t" (the fields are private): own description of the edge
            let (h, rest) = s.split_once(" --(").ok_or("edge format")?;
            let (sh, t) = rest.split_once(")-> ").ok_or("edge format")?;
            let h: usize = h.trim().parse().map_err(|_| "edge head")?;
            let t: usize = t.trim().parse().map_err(|_| "edge tail")?;
            let sh: Vec<i64> = sh.split(',').map(|x| x.trim().parse::<i64>().unwrap()).collect();
            ensure!(h == *v, "incidence list of {} contains an edge starting at {}", v, h);
            if h == t {
                nloops += 1;
            }
            *deg.entry(*v).or_insert(0) += 1;
            for i in 0..c.dim {
                let d = &pos[&t][i] + BigRational::from_integer(BigInt::from(sh[i])) - &pos[&h][i];
                sum.get_mut(v).unwrap()[i] += d;
            }
        }
    }
    for v in &vs {
        ensure!(sum[v].iter().all(|x| x.is_zero()), "barycentric equation violated at vertex {}: sum of edge vectors = {:?}", v, sum[v]);
    }
    obs.nontrivial(vs.len() >= 2);
    obs.classify(nloops > 0, "has loops");
    obs.classify(pos.values().flatten().any(|x| !x.is_integer()), "fractional positions");
    obs.class(&format!("dim {}", c.dim));
    Ok(())
}

pub const SUB_PGRAPH: Sub<GraphCase> = Sub {
    name: "pgraph_client",
    rule: "connected periodic graph (dim 1-3, <= 6 vertices, shifts in -2..2): PeriodicGraph::position pins the first vertex at 0 and satisfies the barycentric equation at every vertex in exact arithmetic; non-trivial = >= 2 vertices",
    check: check_pgraph,
    panic_discards: &[],
    journal: false,
};

// ---------------------------------------------------------------------------
// generators

fn band(which: u8) -> BoxedStrategy<i64> {
    match which {
        0 => (-3i64..=3).boxed(),
        1 => (-100i64..=100).boxed(),
        2 => prop_oneof![(-1_000_000_000i64..=1_000_000_000), (-3i64..=3)].boxed(),
        // entries close to the ends of the i64 range (solver only: the p-adic residuals then exceed 64 bits)
        _ => prop_oneof![(i64::MAX / 4..=i64::MAX / 2), (i64::MIN / 2..=i64::MIN / 4), (-3i64..=3)].boxed(),
    }
}

fn matmul_i(rows: usize, inner: usize, k: usize, a: &[i64], x: &[i64]) -> Vec<i64> {
    let mut out = vec![0i64; rows * k];
    for i in 0..rows {
        for j in 0..k {
            let mut s = 0i128;
            for t in 0..inner {
                s += a[i * inner + t] as i128 * x[t * k + j] as i128;
            }
            out[i * k + j] = s.clamp(i64::MIN as i128 / 4, i64::MAX as i128 / 4) as i64;
        }
    }
    out
}

/// A with a given construction kind
fn a_strategy(rows: usize, cols: usize, bnd: u8, p: i64) -> BoxedStrategy<Vec<i64>> {
    let n = rows * cols;
    prop_oneof![
        3 => prop::collection::vec(band(bnd), n),
        // planted dependencies: later rows are combinations of earlier ones, some columns zeroed
        3 => (prop::collection::vec(band(bnd.min(1)), n), prop::collection::vec(-2i64..=2, 12), 0usize..=rows, any::<u8>()).prop_map(move |(mut a, f, keep, zc)| {
            let keep = keep.max(1).min(rows);
            for i in keep..rows {
                for j in 0..cols {
                    let mut s = 0i64;
                    for t in 0..keep {
                        s += f[(i * 3 + t) % 12] * a[t * cols + j];
                    }
                    a[i * cols + j] = s;
                }
            }
            if zc % 4 == 0 {
                let c = (zc as usize / 4) % cols;
                for i in 0..rows { a[i * cols + c] = 0; }
            }
            a
        }),
        // products of elementary matrices (unimodular when square), embedded in the top-left
        2 => prop::collection::vec((any::<u8>(), any::<u8>(), -2i64..=2, any::<bool>()), 0..10).prop_map(move |ops| {
            let mut a = vec![0i64; n];
            for i in 0..rows.min(cols) { a[i * cols + i] = 1; }
            for (x, y, f, is_row) in ops {
                if is_row && rows >= 2 {
                    let (x, y) = (x as usize % rows, y as usize % rows);
                    if x != y { for j in 0..cols { a[x * cols + j] += f * a[y * cols + j]; } }
                } else if !is_row && cols >= 2 {
                    let (x, y) = (x as usize % cols, y as usize % cols);
                    if x != y { for i in 0..rows { a[i * cols + x] += f * a[i * cols + y]; } }
                }
            }
            a
        }),
        // entries congruent to small numbers modulo p (singular mod p much more often; exact multiples of p of both signs)
        2 => prop::collection::vec((-2i64..=2, -2i64..=2), n).prop_map(move |v| v.into_iter().map(|(s, k)| s + k * p).collect()),
    ]
    .boxed()
}

fn mat_case() -> impl Strategy<Value = MatCase> {
    (0u8..7, 1usize..=6, 1usize..=6, 0u8..3, 1usize..=3, any::<bool>()).prop_flat_map(|(backend, rows, cols, bnd, k, twin)| {
        let (rows, cols, k, twin) = if twin {
            // map onto one of the shapes that have a const-generic twin
            let (r, c) = TWIN_SHAPES[(rows * 6 + cols) % TWIN_SHAPES.len()];
            (r, c, TWIN_K, true)
        } else {
            (rows, cols, k, false)
        };
        // machine integers cannot hold determinants of big matrices with big entries
        let bnd = if backend == 0 && rows.max(cols) > 2 { bnd.min(1) } else { bnd };
        let p = if backend >= 2 { PRIMES[backend as usize - 2] } else { 7 };
        (a_strategy(rows, cols, bnd, p), prop::collection::vec(-3i64..=3, cols * k), prop::collection::vec(band(bnd.min(1)), rows * k), 0u8..4).prop_map(
            move |(a, x0, rnd, consistent)| {
                let b = if consistent > 0 { matmul_i(rows, cols, k, &a, &x0) } else { rnd };
                MatCase { backend, twin, rows, cols, a, k, b }
            },
        )
    })
}

fn res_case() -> impl Strategy<Value = ResCase> {
    (0u8..5).prop_flat_map(|p| {
        let q = PRIMES[p as usize];
        let num = move || {
            prop_oneof![
                any::<i64>(),
                (i32::MIN as i64..=i32::MAX as i64),
                (-4i64..=4, -3i64..=3).prop_map(move |(k, s)| k * q + s),
                (-1000i64..=1000, -1i64..=1).prop_map(move |(k, s)| (k as i128 * q as i128 + s as i128).clamp(i64::MIN as i128, i64::MAX as i128) as i64),
                Just(i64::MIN), Just(i64::MAX), Just(i64::MIN + 1),
            ]
        };
        (num(), num()).prop_map(move |(n, m)| ResCase { p, n, m })
    })
}

fn solve_case() -> impl Strategy<Value = SolveCase> {
    (1usize..=6, 1usize..=3, 0u8..4).prop_flat_map(|(n, k, bnd)| {
        // band 3 (entries near the ends of the i64 range): plain random matrices only, the structured
        // generators of a_strategy multiply entries
        let a = if bnd == 3 { prop::collection::vec(band(3), n * n).boxed() } else { a_strategy(n, n, bnd, SOLVER_PRIME) };
        (a, prop::collection::vec(band(bnd), n * k)).prop_map(move |(a, b)| SolveCase { n, k, a, b })
    })
}

fn graph_case() -> impl Strategy<Value = GraphCase> {
    (1usize..=3, 1usize..=6).prop_flat_map(|(dim, nv)| {
        let shift = prop::collection::vec(-2i64..=2, dim);
        // a spanning tree (vertex i attached to an earlier vertex) plus extra edges: connected by construction
        (
            prop::collection::vec((any::<u32>(), shift.clone()), nv - 1),
            prop::collection::vec((0..nv, 0..nv, shift), if nv == 1 { 1..5 } else { 0..8 }),
            prop::collection::vec(0usize..30, nv),
        )
            .prop_map(move |(tree, extra, labels)| {
                // strictly increasing sparse vertex labels
                let mut lab = vec![];
                let mut cur = 0;
                for l in &labels {
                    cur += l + 1;
                    lab.push(cur);
                }
                let mut edges = vec![];
                for (i, (pick, s)) in tree.into_iter().enumerate() {
                    let parent = pick_index(pick, i + 1);
                    edges.push((lab[i + 1], lab[parent], s));
                }
                for (a, b, s) in extra {
                    edges.push((lab[a], lab[b], s));
                }
                GraphCase { dim, edges }
            })
    })
}

pub fn run(ctx: &mut Ctx) {
    let t = ctx.tier;
    ctx.rule = "proptest-generated integer matrices 1x1..6x6 (iid in three magnitude bands, planted dependencies, products of elementary matrices, entries congruent to small numbers modulo the backend's prime) with consistent and random right-hand sides, over VecMatrix<i64 | BigRational | Z/p> and the const-generic Matrix twin (14 shapes, through the cfg-gated hook); residues exhaustively for small primes and randomly (incl. exact negative multiples of the modulus) for all five primes; square systems for the p-adic solver; connected periodic graphs for the client; oracles = own Gaussian elimination over Q and Z/p, Bareiss determinant, i128 modular arithmetic".into();
    ctx.assume("i64 backend: arithmetic overflow panics are discards; completeness of solve/inverse is only required for unimodular matrices");
    ctx.assume("f64 backends are out of scope (the property is about exact backends)");
    ctx.assume("right-hand sides have at least one column; determinant/inverse are only called on square matrices (they assert it)");
    ctx.assume("periodic graphs are connected (the client unwraps the solver result)");
    crate::props::run_regressions(ctx, "C18");

    ctx.layer("exhaustive");
    // all n in [-3P, 3P] x all m in [-P, P] for the three small primes
    for (pi, &p) in PRIMES.iter().enumerate().take(3) {
        let (wn, wm) = ((6 * p + 1) as u64, (2 * p + 1) as u64);
        ctx.run_par_indexed(
            &SUB_RESIDUE,
            wn * wm,
            |i| Some(ResCase { p: pi as u8, n: (i / wm) as i64 - 3 * p, m: (i % wm) as i64 - p }),
            Some("all n in [-3P, 3P] x m in [-P, P] for P in {2, 3, 61}"),
        );
    }
    // all 2x2 and 2x3 / 3x2 matrices with entries in -2..=2 over all backends (VecMatrix), rhs = first column of A + 1
    for &(r, cdim) in &[(1usize, 2usize), (2, 1), (2, 2), (2, 3), (3, 2)] {
        let cells = r * cdim;
        let total = 5u64.pow(cells as u32) * 7 * 2;
        ctx.run_par_indexed(
            &SUB_MATRIX,
            total,
            |mut i| {
                let twin = i % 2 == 1;
                i /= 2;
                let backend = (i % 7) as u8;
                i /= 7;
                let mut a = vec![0i64; cells];
                for x in a.iter_mut() {
                    *x = (i % 5) as i64 - 2;
                    i /= 5;
                }
                if twin && !TWIN_SHAPES.contains(&(r, cdim)) {
                    return None;
                }
                let k = TWIN_K;
                let b: Vec<i64> = (0..r * k).map(|q| if q % k == 0 { a[(q / k) * cdim] } else { 1 + (q / k) as i64 }).collect();
                Some(MatCase { backend, twin, rows: r, cols: cdim, a, k, b })
            },
            Some("all 1x2, 2x1, 2x2, 2x3, 3x2 matrices with entries in -2..=2 x 7 backends x {VecMatrix, Matrix twin where the shape has one}"),
        );
    }
    ctx.layer("random");
    ctx.run_prop(&SUB_RESIDUE, res_case, t.pick(300_000, 5_000_000));
    ctx.run_prop(&SUB_MATRIX, mat_case, t.pick(200_000, 6_000_000));
    ctx.run_prop(&SUB_MODSOLVE, solve_case, t.pick(20_000, 600_000));
    ctx.run_prop(&SUB_PGRAPH, graph_case, t.pick(10_000, 300_000));
}

pub fn replay(ctx: &mut Ctx, sub: &str, case: &Value) -> Option<Result<(), String>> {
    Some(match sub {
        "matrix" => ctx.run_one(&SUB_MATRIX, &MatCase::decode(case)?),
        "residue" => ctx.run_one(&SUB_RESIDUE, &ResCase::decode(case)?),
        "modular_solver" => ctx.run_one(&SUB_MODSOLVE, &SolveCase::decode(case)?),
        "pgraph_client" => ctx.run_one(&SUB_PGRAPH, &GraphCase::decode(case)?),
        _ => return None,
    })
}
