//! Call-history stress shared by several properties: the answer for one input before and after runs
//! of calls on a smaller input (runner::wrap_stress). Pure routines must not care; scratch state that
//! survives a call (generation-stamped buffers, memo tables, thread-locals) shows up here.
use crate::ensure;
use crate::model::DS;
use crate::runner::*;
use crate::util::*;
use rust_dsymbols::dsets::DSet;
use rust_dsymbols::geometry::traits::Array2d;
use rust_dsymbols::dsyms::{DSym, PartialDSym};
use serde_json::{json, Value};

#[derive(Clone, Debug, Hash)]
pub struct HistCase {
    pub prop: String,
    pub variant: usize,
}

impl Case for HistCase {
    fn encode(&self) -> Value {
        json!({"property": self.prop, "variant": self.variant})
    }
    fn decode(v: &Value) -> Option<Self> {
        Some(HistCase { prop: v.get("property")?.as_str()?.to_string(), variant: v.get("variant")?.as_u64()? as usize })
    }
    fn weight(&self) -> usize {
        self.variant
    }
    fn hash64(&self) -> u64 {
        h64(self)
    }
}

const BIG2: [&str; 2] = ["<1.1:8:2 4 6 8,8 3 5 7,1 2 3 4 5 6 7 8:4,4 6 8 4>", "<1.1:6:2 4 6,6 3 5,1 2 3 4 5 6:3,4 6 4>"];
const BIG3: [&str; 2] = ["<1.1:6 3:1 2 3 4 5 6,1 3 4 6,2 3 5 6,1 5 6 4:3 4 3 4,3 3,4 6>", "<1.1:4 3:2 4,1 2 3 4,3 4,2 4:4 6,2 6,4>"];
const SMALL2: &str = "<1.1:1:1,1,1:3,6>";

fn sym(text: &str) -> Result<DS, String> {
    let ds = DS::parse(text).ok_or_else(|| format!("harness: cannot read {}", text))?;
    ensure!(ds.is_complete() && ds.ops_are_involutions() && ds.is_connected(), "harness: {} is not a connected complete symbol", text);
    Ok(ds)
}

fn check_hist(c: &HistCase, obs: &mut Obs) -> Result<(), String> {
    let v = c.variant % 2;
    let calls = match c.prop.as_str() {
        "C01" => {
            let (b, s) = (BIG3[v].to_string(), SMALL2.to_string());
            wrap_stress(|| b.parse::<PartialDSym>().map(|x| format!("{}", x)).map_err(|e| e.to_string()), || { let _ = s.parse::<PartialDSym>(); }, &format!("parse / print of {} with parses of {} in between", b, s))?
        }
        "C02" => {
            let (b, s) = (sym(BIG3[v])?.to_partial_fresh(), sym(SMALL2)?.to_partial_fresh());
            let n = b.size();
            wrap_stress(
                || ((1..=n).map(|d| b.orbit([0usize, 1], d)).collect::<Vec<_>>(), b.orbit_reps([1usize, 2, 3], 1..=n), (1..=n).map(|d| (b.r(0, 1, d), b.m(1, 2, d), b.v(2, 3, d))).collect::<Vec<_>>(), b.is_weakly_oriented(), b.is_connected(), b.traversal([0usize, 1, 2, 3], [1usize]).count()),
                || { let _ = s.orbit([0usize, 1, 2], 1); },
                &format!("orbits / representatives / r, m, v / predicates of {} with orbit calls on {} in between", BIG3[v], SMALL2),
            )?
        }
        "C03" => {
            let (b, s) = (sym(BIG2[v])?.to_partial_fresh(), sym(SMALL2)?.to_partial_fresh());
            wrap_stress(|| format!("{}", rust_dsymbols::derived::canonical(&b)), || { let _ = rust_dsymbols::derived::canonical(&s); }, &format!("canonical form of {} with canonical({}) in between", BIG2[v], SMALL2))?
        }
        "C04" => {
            let (b, s) = (sym(BIG2[v])?.to_partial_fresh(), sym(SMALL2)?.to_partial_fresh());
            wrap_stress(|| (b.is_minimal(), format!("{}", rust_dsymbols::derived::minimal_image(&b)), b.automorphisms()), || { let _ = s.is_minimal(); }, &format!("is_minimal / minimal_image / automorphisms of {} with is_minimal({}) in between", BIG2[v], SMALL2))?
        }
        "C10" => {
            use rust_dsymbols::fpgroups::free_words::*;
            let w = FreeWord::from(if v == 0 { vec![1isize, 2, 1, 2, 1, -3, 2, 2] } else { vec![3isize, -1, -1, 2, 3, 3, -2, 1, 1] });
            let s = FreeWord::from(vec![1isize]);
            wrap_stress(|| (relator_representative(&w), relator_permutations(&w), w.inverse(), &w * &w, w.rotated(3), w.raised_to(-2)), || { let _ = relator_representative(&s); let _ = &s * &s; }, "relator representative / permutations / inverse / product / rotation / power of a word with calls on a one-letter word in between")?
        }
        "C14" => {
            use rust_dsymbols::fpgroups::free_words::FreeWord;
            let rels: Vec<FreeWord> = if v == 0 { vec![vec![1isize; 8], vec![1, 2, 2, 2, 1, 1], vec![3, 3, -1, 3, 2]] } else { vec![vec![1isize, 1, 2, 2, 2, 2], vec![2, 3, 3, 3, 3, 3, 3], vec![1, -3, 1, -3]] }.into_iter().map(FreeWord::from).collect();
            let srel = vec![FreeWord::from(vec![1isize, 1])];
            wrap_stress(|| rust_dsymbols::fpgroups::invariants::abelian_invariants(3, &rels), || { let _ = rust_dsymbols::fpgroups::invariants::abelian_invariants(1, &srel); }, "abelian invariants of a 3-generator presentation with calls on <a | a^2> in between")?
        }
        "C18" => {
            use num_bigint::BigInt;
            use num_rational::BigRational;
            use rust_dsymbols::geometry::vec_matrix::VecMatrix;
            let entries: [[i64; 4]; 4] = if v == 0 { [[2, -1, 0, 3], [4, 1, -2, 0], [0, 5, 1, -1], [6, 0, -1, 2]] } else { [[1, 2, 3, 4], [2, 4, 6, 8], [0, 1, -1, 5], [3, 0, 2, -7]] };
            let mut a = VecMatrix::<BigRational>::new(4, 4);
            let mut ai = VecMatrix::<i64>::new(4, 4);
            for i in 0..4 {
                for j in 0..4 {
                    a[i][j] = BigRational::from_integer(BigInt::from(entries[i][j]));
                    ai[i][j] = entries[i][j];
                }
            }
            let mut s = VecMatrix::<BigRational>::new(1, 1);
            s[0][0] = BigRational::from_integer(BigInt::from(3));
            let show = |m: &VecMatrix<BigRational>| (0..m.nr_rows()).map(|i| (0..m.nr_columns()).map(|j| m[(i, j)].to_string()).collect::<Vec<_>>()).collect::<Vec<_>>();
            wrap_stress(|| (a.rank(), a.determinant().to_string(), show(&a.null_space_matrix()), a.inverse().map(|m| show(&m)), ai.rank(), ai.determinant()), || { let _ = s.rank(); let _ = s.determinant(); }, "rank / determinant / null space / inverse of a 4x4 matrix with calls on a 1x1 matrix in between")?
        }
        "C19" => {
            use rust_dsymbols::util::cutsets::*;
            // 3 x 3 grid, source 0, sink 8
            let mut edges: Vec<(usize, usize)> = vec![];
            for r in 0..3 {
                for q in 0..3 {
                    if q + 1 < 3 { edges.push((3 * r + q, 3 * r + q + 1)); }
                    if r + 1 < 3 { edges.push((3 * r + q, 3 * (r + 1) + q)); }
                }
            }
            if v == 1 { edges.push((0, 4)); edges.push((4, 8)); }
            let small = vec![(0usize, 1usize)];
            wrap_stress(
                || {
                    let a = min_vertex_cut_undirected(edges.clone(), 0, 8);
                    let b = min_edge_cut_undirected(edges.clone(), 0, 8);
                    let c = min_edge_cut(edges.clone(), 0, 8);
                    (a.cut_vertices.len(), a.inside_vertices.len(), b.cut_edges.len(), b.inside_vertices.len(), c.cut_edges.len())
                },
                || { let _ = min_edge_cut(small.clone(), 0, 1); },
                "cut sizes and inside sets of a 3 x 3 grid with calls on a one-edge graph in between",
            )?
        }
        _ => return Err("harness: no call-history stress for this property".into()),
    };
    obs.nontrivial(true);
    obs.class(&format!("{} calls on the smaller input", calls));
    Ok(())
}

pub const SUB_HIST: Sub<HistCase> = Sub {
    name: "call_history_generic",
    rule: "the property's routines on a fixed input B are evaluated, then n calls on a smaller input S, then B again, for every n in windows around 2^8 / p and 2^16 / p (p = 1..6): the answers for B must never change (pure routines must not depend on earlier calls); non-trivial = always",
    check: check_hist,
    panic_discards: &[],
    journal: false,
};

pub fn run(ctx: &mut Ctx) {
    if !["C01", "C02", "C03", "C04", "C10", "C14", "C18", "C19"].contains(&ctx.prop) {
        return;
    }
    ctx.layer("call-history");
    let n = if ctx.tier == Tier::Thorough { 2 } else { 1 };
    let cases: Vec<HistCase> = (0..n).map(|variant| HistCase { prop: ctx.prop.to_string(), variant }).collect();
    ctx.run_par(&SUB_HIST, cases, None);
}
