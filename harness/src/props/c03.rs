//! C03 — the canonical form is a complete isomorphism invariant
use crate::ensure;
use crate::gen::dsets::dsets_up_to;
use crate::gen::dsyms::*;
use crate::model::*;
use crate::oracle::iso::*;
use crate::runner::*;
use crate::util::*;
use proptest::prelude::*;
use rayon::prelude::*;
use rust_dsymbols::derived::canonical;
use serde_json::{json, Value};
use std::collections::BTreeMap;

#[derive(Clone, Debug, Hash)]
pub struct Renum {
    pub ds: DS,
    pub swaps: Vec<(u32, u32)>,
}

impl Case for Renum {
    fn encode(&self) -> Value {
        json!({"symbol": self.ds.encode(), "swaps": self.swaps.iter().map(|s| json!([s.0, s.1])).collect::<Vec<_>>()})
    }
    fn decode(v: &Value) -> Option<Self> {
        Some(Renum {
            ds: DS::decode(v.get("symbol")?)?,
            swaps: v.get("swaps")?.as_array()?.iter().filter_map(|p| Some((p.get(0)?.as_u64()? as u32, p.get(1)?.as_u64()? as u32))).collect(),
        })
    }
    fn weight(&self) -> usize {
        self.ds.size
    }
    fn hash64(&self) -> u64 {
        h64(self)
    }
}

fn crate_canonical(ds: &DS, simple: bool) -> DS {
    if simple {
        DS::from_dsym(&canonical(&ds.to_simple()))
    } else {
        DS::from_dsym(&canonical(&ds.to_partial()))
    }
}

fn check_renum(c: &Renum, obs: &mut Obs) -> Result<(), String> {
    let x = &c.ds;
    ensure!(x.is_complete() && x.ops_are_involutions() && x.v_consistent() && x.is_connected(), "harness: case is not a connected complete D-symbol");
    let cx = crate_canonical(x, false);
    // (1) isomorphic to the input, fixed point
    ensure!(cx.size == x.size && cx.dim == x.dim && cx.is_complete() && cx.ops_are_involutions(), "canonical({}) = {} is not a complete symbol of the same size", x.text(), cx.text());
    ensure!(canonical_code(&cx, true) == canonical_code(x, true), "canonical({}) = {} is not isomorphic to the input", x.text(), cx.text());
    let ccx = crate_canonical(&cx, false);
    ensure!(ccx == cx, "canonical form is not a fixed point: canonical({}) = {}", cx.text(), ccx.text());
    let cs = crate_canonical(x, true);
    ensure!(cs == cx, "canonical form differs between PartialDSym and SimpleDSym input: {} vs {}", cx.text(), cs.text());
    // (2) every renumbering gives the same form
    let perm = perm_from_swaps(x.size, &c.swaps);
    let y = x.renumbered(&perm);
    let cy = crate_canonical(&y, c.swaps.len() % 2 == 1);
    ensure!(cy == cx, "renumbering changes the canonical form: canonical({}) = {} but canonical({}) = {}", x.text(), cx.text(), y.text(), cy.text());
    // is the renumbering an automorphism?
    let is_auto = y == *x;
    obs.nontrivial(x.size >= 3 && !is_auto);
    obs.classify(is_auto, "renumbering is an automorphism (or identity)");
    obs.classify(x.size >= 50, ">= 50 chambers");
    obs.class(&format!("dim {}", x.dim));
    Ok(())
}

pub const SUB_RENUM: Sub<Renum> = Sub {
    name: "renumbering",
    rule: "(connected symbol, renumbering as a list of transpositions): canonical(x) is isomorphic to x (own minimum-BFS code), is a fixed point, agrees between representations, and equals canonical(renumbered x); non-trivial = size >= 3 and the renumbering is not an automorphism",
    check: check_renum,
    panic_discards: &[],
    journal: false,
};

#[derive(Clone, Debug, Hash)]
pub struct Pair(pub DS, pub DS);

impl Case for Pair {
    fn encode(&self) -> Value {
        json!({"x": self.0.encode(), "y": self.1.encode()})
    }
    fn decode(v: &Value) -> Option<Self> {
        Some(Pair(DS::decode(v.get("x")?)?, DS::decode(v.get("y")?)?))
    }
    fn weight(&self) -> usize {
        self.0.size + self.1.size
    }
    fn hash64(&self) -> u64 {
        h64(self)
    }
}

fn check_pair(c: &Pair, obs: &mut Obs) -> Result<(), String> {
    let (x, y) = (&c.0, &c.1);
    let iso = is_isomorphic(x, y);
    // guard on the oracle itself: pairwise search and canonical codes must agree
    ensure!(iso == (canonical_code(x, true) == canonical_code(y, true)), "harness oracle disagreement on {} / {}", x.text(), y.text());
    let same = crate_canonical(x, false) == crate_canonical(y, true);
    ensure!(same == iso, "{} and {} are {}isomorphic but their canonical forms are {}", x.text(), y.text(), if iso { "" } else { "not " }, if same { "equal" } else { "different" });
    obs.nontrivial(x.size >= 2 && x.size == y.size);
    obs.classify(iso, "isomorphic pair");
    obs.classify(!iso && x.dset() == y.dset(), "same D-set, different branching");
    obs.classify(!iso && canonical_code(x, false) == canonical_code(y, false), "isomorphic D-sets, non-isomorphic symbols");
    Ok(())
}

pub const SUB_PAIR: Sub<Pair> = Sub {
    name: "pair",
    rule: "(x, y) connected symbols of equal dimension: canonical(x) == canonical(y) iff own brute-force morphism search finds an isomorphism (cross-checked against own canonical codes); non-trivial = equal size >= 2",
    check: check_pair,
    panic_discards: &[],
    journal: false,
};

pub fn run(ctx: &mut Ctx) {
    let t = ctx.tier;
    ctx.rule = "all branching assignments (v <= 3, capped per D-set) on all connected D-sets of the brute-force enumeration (dim 2, 3 and 1) with fixed and proptest-generated renumberings; partition of the whole list by crate canonical form compared with the partition by own isomorphism code (covers all pairs), explicit pair checks on neighbours, conflicts and random pairs; random connected symbols with up to 300 chambers".into();
    ctx.assume("connected symbols only");
    crate::props::run_regressions(ctx, "C03");

    ctx.layer("exhaustive");
    let dsets: Vec<DS> = { let mut v = dsets_up_to(2, t.pick(6, 8)); v.extend(dsets_up_to(3, t.pick(4, 6))); v.extend(dsets_up_to(1, 6)); v.extend(dsets_up_to(4, t.pick(4, 5))); v.extend(dsets_up_to(5, t.pick(3, 4))); v.extend(dsets_up_to(6, 3)); v };
    let mut syms: Vec<DS> = vec![];
    let mut complete = true;
    for ds in &dsets {
        let (s, all) = assignments(ds, 3, t.pick(81, 729));
        complete &= all;
        syms.extend(s);
    }
    let note = format!("all branching assignments v <= 3 on all {} connected D-sets (dim 2 size <= {}, dim 3 size <= {}, dim 1 size <= 6, dim 4 size <= {}, dim 5 size <= {}, dim 6 size <= 3){}", dsets.len(), t.pick(6, 8), t.pick(4, 6), t.pick(4, 5), t.pick(3, 4), if complete { "" } else { ", capped per D-set" });
    // fixed renumberings: reversal, rotation, one transposition
    let cases: Vec<Renum> = syms
        .iter()
        .enumerate()
        .flat_map(|(k, s)| {
            let n = s.size as u32;
            let m = u32::MAX;
            // swaps are monotone index maps: (a, b) in units of 2^32 / n
            let unit = |i: u32| ((i as u64 * (1u64 << 32)) / n.max(1) as u64) as u32;
            let reversal: Vec<(u32, u32)> = (0..n / 2).map(|i| (unit(i), unit(n - 1 - i))).collect();
            let rotation: Vec<(u32, u32)> = (0..n.saturating_sub(1)).map(|i| (unit(i), unit(i + 1))).collect();
            let one = vec![(0u32, unit((k as u32) % n.max(1)).min(m))];
            vec![Renum { ds: s.clone(), swaps: reversal }, Renum { ds: s.clone(), swaps: rotation }, Renum { ds: s.clone(), swaps: one }]
        })
        .collect();
    ctx.run_par(&SUB_RENUM, cases, if complete { Some(&note) } else { None });
    if !complete {
        ctx.note(note.clone());
    }

    // partition comparison over the whole list (covers all pairs)
    let forms: Vec<Result<(DS, Vec<usize>), String>> = syms.par_iter().map(|s| guarded(|| (crate_canonical(s, false), canonical_code(s, true)))).collect();
    let mut by_crate: BTreeMap<DS, usize> = BTreeMap::new();
    let mut by_own: BTreeMap<Vec<usize>, usize> = BTreeMap::new();
    let mut pairs: Vec<Pair> = vec![];
    let mut conflicts = 0;
    for (k, f) in forms.iter().enumerate() {
        if let Ok((cf, oc)) = f {
            let a = *by_crate.entry(cf.clone()).or_insert(k);
            let b = *by_own.entry(oc.clone()).or_insert(k);
            if a != b {
                // first representative differs: one of the two partitions merges what the other separates
                conflicts += 1;
                if pairs.len() < 50 {
                    pairs.push(Pair(syms[a.min(b)].clone(), syms[k].clone()));
                    pairs.push(Pair(syms[a.max(b)].clone(), syms[k].clone()));
                }
            }
        }
    }
    ctx.note(format!("partition comparison over {} symbols: {} classes by crate canonical form, {} by own isomorphism code, {} conflicts", syms.len(), by_crate.len(), by_own.len(), conflicts));
    // neighbours in the enumeration (mostly: same D-set, different branching)
    for k in 0..syms.len() {
        for off in [1usize, 2, 7] {
            if k + off < syms.len() && syms[k].size == syms[k + off].size && syms[k].dim == syms[k + off].dim {
                pairs.push(Pair(syms[k].clone(), syms[k + off].clone()));
            }
        }
    }
    ctx.run_par(&SUB_PAIR, pairs, None);

    ctx.layer("random");
    let n = t.pick(20_000u32, 2_000_000u32);
    let sw = || prop::collection::vec((any::<u32>(), any::<u32>()), 0..10);
    let pool = std::sync::Arc::new(dsets);
    {
        let pool = pool.clone();
        ctx.run_prop(&SUB_RENUM, move || (pooled_symbol(pool.clone()), sw()).prop_map(|(ds, swaps)| Renum { ds, swaps }), n);
    }
    ctx.run_prop(&SUB_RENUM, || (prop_oneof![random_symbol(2, 8..=40), random_symbol(3, 6..=40)], sw()).prop_map(|(ds, swaps)| Renum { ds, swaps }), n / 4);
    ctx.run_prop(&SUB_RENUM, || (prop_oneof![random_symbol(2, 100..=300), random_symbol(3, 100..=300)], sw()).prop_map(|(ds, swaps)| Renum { ds, swaps }), n / 100);
    // higher dimensions
    ctx.run_prop(&SUB_RENUM, || (prop_oneof![random_symbol(4, 4..=40), random_symbol(5, 4..=32), random_symbol(6, 4..=24), random_symbol(4, 60..=130)], sw()).prop_map(|(ds, swaps)| Renum { ds, swaps }), n / 4);
    // branching numbers beyond 32 bits (legal usize values; congruent ones modulo 2^32 must still be told apart)
    {
        const BIG: [usize; 9] = [1, 2, 3, 1 << 31, 1 << 32, (1 << 32) + 1, (1 << 32) + 2, (1 << 33) + 1, (1 << 40) + 3];
        let huge = |x: &DS, picks: &[u32]| -> DS {
            let reps = orbit_reps(x);
            let vs: Vec<usize> = (0..reps.len()).map(|k| BIG[picks[k % picks.len()] as usize % BIG.len()]).collect();
            assign(&x.dset(), &reps, &vs)
        };
        let pool_a = pool.clone();
        ctx.run_prop(&SUB_RENUM, move || (pooled_symbol(pool_a.clone()), prop::collection::vec(any::<u32>(), 6), sw()).prop_map(move |(x, picks, swaps)| Renum { ds: huge(&x, &picks), swaps }), n / 4);
        let pool_b = pool.clone();
        ctx.run_prop(
            &SUB_PAIR,
            move || {
                (pooled_symbol(pool_b.clone()), prop::collection::vec(any::<u32>(), 6), any::<u32>(), any::<u32>(), sw()).prop_map(move |(x, picks, k, v, swaps)| {
                    let a = huge(&x, &picks);
                    let reps = orbit_reps(&a);
                    let (i, d) = reps[pick_index(k, reps.len())];
                    let mut b = a.clone();
                    b.set_v(i, d, BIG[v as usize % BIG.len()]);
                    let b = b.renumbered(&perm_from_swaps(b.size, &swaps));
                    Pair(a, b)
                })
            },
            n / 4,
        );
    }
    // space-group quotients of the cubic / prism tilings: highly symmetric symbols with up to thousands of chambers
    let max_n = t.pick(3usize, 4usize);
    ctx.run_prop(&SUB_RENUM, move || (crate::props::c17::cubic_strategy(max_n), sw()).prop_map(|(c, swaps)| Renum { ds: c.ds, swaps }), t.pick(1_500, 20_000));
    {
        // random pairs: two symbols on the same pooled D-set with branching differing in few places, one renumbered
        let pool = pool.clone();
        ctx.run_prop(
            &SUB_PAIR,
            move || {
                (pooled_symbol(pool.clone()), any::<u32>(), v_strategy(), sw()).prop_map(|(x, k, v, swaps)| {
                    let reps = orbit_reps(&x);
                    let (i, d) = reps[pick_index(k, reps.len())];
                    let mut y = x.clone();
                    y.set_v(i, d, v);
                    let y = y.renumbered(&perm_from_swaps(y.size, &swaps));
                    Pair(x, y)
                })
            },
            n / 2,
        );
    }
}

pub fn replay(ctx: &mut Ctx, sub: &str, case: &Value) -> Option<Result<(), String>> {
    Some(match sub {
        "renumbering" => ctx.run_one(&SUB_RENUM, &Renum::decode(case)?),
        "pair" => ctx.run_one(&SUB_PAIR, &Pair::decode(case)?),
        _ => return None,
    })
}
