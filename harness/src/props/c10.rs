//! C10 — free words behave as reduced elements of a free group
use crate::ensure;
use crate::runner::*;
use crate::util::*;
use proptest::prelude::*;
use rust_dsymbols::fpgroups::free_words::{relator_permutations, relator_representative, FreeWord};
use serde_json::{json, Value};
use std::cmp::Ordering;
use std::collections::BTreeSet;

// ---------------------------------------------------------------------------
// model

pub fn m_reduce(raw: &[i64]) -> Vec<i64> {
    let mut st: Vec<i64> = Vec::with_capacity(raw.len());
    for &x in raw {
        if x == 0 {
            continue;
        }
        if st.last() == Some(&-x) {
            st.pop();
        } else {
            st.push(x);
        }
    }
    st
}
pub fn m_mul(a: &[i64], b: &[i64]) -> Vec<i64> {
    let mut v = a.to_vec();
    v.extend_from_slice(b);
    m_reduce(&v)
}
pub fn m_inv(a: &[i64]) -> Vec<i64> {
    a.iter().rev().map(|x| -x).collect()
}
pub fn m_pow(a: &[i64], k: i64) -> Vec<i64> {
    let base = if k < 0 { m_inv(a) } else { a.to_vec() };
    let mut r = vec![];
    for _ in 0..k.abs() {
        r = m_mul(&r, &base);
    }
    r
}
pub fn m_rot(a: &[i64], k: i64) -> Vec<i64> {
    if a.is_empty() {
        return vec![];
    }
    let n = a.len() as i64;
    let s = k.rem_euclid(n) as usize;
    let mut v = a[s..].to_vec();
    v.extend_from_slice(&a[..s]);
    m_reduce(&v)
}
pub fn m_is_reduced(a: &[i64]) -> bool {
    a.iter().all(|&x| x != 0) && a.windows(2).all(|w| w[0] != -w[1])
}
pub fn m_cyc_reduced(a: &[i64]) -> bool {
    m_is_reduced(a) && (a.len() < 2 || a[0] != -a[a.len() - 1])
}

fn fw(raw: &[i64]) -> FreeWord {
    FreeWord::new(raw.iter().map(|&x| x as isize))
}
fn letters(w: &FreeWord) -> Vec<i64> {
    w.iter().map(|&x| x as i64).collect()
}
fn same(w: &FreeWord, m: &[i64], what: &str) -> Result<(), String> {
    let l = letters(w);
    ensure!(l == m, "{}: crate gives {:?}, free-group model gives {:?}", what, l, m);
    ensure!(m_is_reduced(&l), "{}: result {:?} is not freely reduced", what, l);
    ensure!(w.len() == m.len(), "{}: len() = {} but {} letters", what, w.len(), m.len());
    Ok(())
}

// ---------------------------------------------------------------------------
// cases

#[derive(Clone, Debug)]
pub struct Words(pub Vec<Vec<i64>>, pub i64);

impl Case for Words {
    fn encode(&self) -> Value {
        json!({"words": self.0, "k": self.1})
    }
    fn decode(v: &Value) -> Option<Self> {
        Some(Words(dec_words(v.get("words")?)?, v.get("k")?.as_i64()?))
    }
    fn weight(&self) -> usize {
        self.0.iter().map(|w| w.len()).sum()
    }
    fn hash64(&self) -> u64 {
        h64(&(&self.0, self.1))
    }
}

fn construct(c: &Words, obs: &mut Obs) -> Result<(), String> {
    let raw = &c.0[0];
    let m = m_reduce(raw);
    obs.nontrivial(m.len() < raw.len());
    obs.classify(raw.contains(&0), "contains 0");
    obs.classify(m.is_empty() && !raw.is_empty(), "collapses to empty");
    let w = fw(raw);
    same(&w, &m, "FreeWord::new")?;
    let w2: FreeWord = FreeWord::from(raw.iter().map(|&x| x as isize).collect::<Vec<_>>());
    same(&w2, &m, "FreeWord::from")?;
    ensure!(w == w2, "new and from differ");
    for (i, &x) in m.iter().enumerate() {
        ensure!(w[i] as i64 == x, "Index {} gives {} expected {}", i, w[i], x);
    }
    // constructing from the reduced letters is the identity
    same(&fw(&m), &m, "new(reduced)")?;
    ensure!((w == FreeWord::empty()) == m.is_empty(), "comparison with empty()");
    ensure!(FreeWord::empty().len() == 0, "empty().len()");
    Ok(())
}

fn ord_pair(a: &FreeWord, b: &FreeWord) -> Result<(), String> {
    let ab = a.cmp(b);
    let ba = b.cmp(a);
    ensure!(ab == ba.reverse(), "cmp not antisymmetric: cmp(a,b)={:?} cmp(b,a)={:?} a={:?} b={:?}", ab, ba, a, b);
    ensure!((ab == Ordering::Equal) == (a == b), "cmp Equal <=> == violated: {:?} for a={:?} b={:?}", ab, a, b);
    ensure!(a.partial_cmp(b) == Some(ab), "partial_cmp disagrees with cmp");
    ensure!((a < b) == (ab == Ordering::Less), "operator < disagrees with cmp");
    ensure!((a > b) == (ab == Ordering::Greater), "operator > disagrees with cmp");
    ensure!(a.cmp(a) == Ordering::Equal, "cmp(a,a) != Equal");
    Ok(())
}

fn binary(c: &Words, obs: &mut Obs) -> Result<(), String> {
    let (ra, rb) = (&c.0[0], &c.0[1]);
    let (ma, mb) = (m_reduce(ra), m_reduce(rb));
    let a = fw(ra);
    let b = fw(rb);
    let mab = m_mul(&ma, &mb);
    obs.nontrivial(mab.len() < ma.len() + mb.len());
    obs.classify(mab.is_empty() && !ma.is_empty(), "product is identity");
    same(&(&a * &b), &mab, "&a * &b")?;
    same(&(&a * b.clone()), &mab, "&a * b")?;
    same(&(a.clone() * &b), &mab, "a * &b")?;
    same(&(a.clone() * b.clone()), &mab, "a * b")?;
    let mut x = a.clone();
    x *= &b;
    same(&x, &mab, "a *= &b")?;
    ensure!(x == &a * &b, "a *= &b differs from &a * &b under ==");
    // in-place product twice (state carried between in-place products)
    let mut y = a.clone();
    y *= &b;
    y *= &b.inverse();
    same(&y, &ma, "a *= &b; a *= &b^-1")?;
    // letter product
    if let Some(&l) = mb.first() {
        let mal = m_mul(&ma, &[l]);
        same(&(&a * (l as isize)), &mal, "&a * letter")?;
        same(&(a.clone() * (l as isize)), &mal, "a * letter")?;
    }
    same(&(&a * 0isize), &ma, "&a * 0")?;
    // inverse
    let ia = a.inverse();
    same(&ia, &m_inv(&ma), "inverse")?;
    same(&(&a * &ia), &[], "a * a^-1")?;
    same(&(&ia * &a), &[], "a^-1 * a")?;
    same(&ia.inverse(), &ma, "inverse of inverse")?;
    same(&(&a * &b).inverse(), &m_mul(&m_inv(&mb), &m_inv(&ma)), "(ab)^-1")?;
    // identity
    same(&(&a * &FreeWord::empty()), &ma, "a * 1")?;
    same(&(&FreeWord::empty() * &a), &ma, "1 * a")?;
    // commutator
    let mc = m_mul(&m_mul(&mab, &m_inv(&ma)), &m_inv(&mb));
    same(&a.commutator(&b), &mc, "commutator")?;
    // order
    ord_pair(&a, &b)?;
    ord_pair(&(&a * &b), &(&b * &a))?;
    // equality is equality in the free group
    ensure!((a == b) == (ma == mb), "== differs from free-group equality");
    Ok(())
}

fn unary(c: &Words, obs: &mut Obs) -> Result<(), String> {
    let ma = m_reduce(&c.0[0]);
    let k = c.1;
    let a = fw(&c.0[0]);
    obs.nontrivial(!m_cyc_reduced(&ma) || ma.is_empty());
    obs.classify(ma.is_empty(), "empty word");
    obs.classify(k < 0, "negative amount");
    if (ma.len() as i64) * k.abs() <= 5000 {
        same(&a.raised_to(k as isize), &m_pow(&ma, k), "raised_to")?;
        let p = a.raised_to(k as isize);
        let q = a.raised_to(-k as isize);
        same(&(&p * &q), &[], "a^k * a^-k")?;
    }
    same(&a.rotated(k as isize), &m_rot(&ma, k), "rotated")?;
    if !ma.is_empty() {
        // rotating by the length is the identity on cyclically reduced words
        if m_cyc_reduced(&ma) {
            same(&a.rotated(ma.len() as isize), &ma, "rotated(len)")?;
            same(&a.rotated(k as isize).rotated(-k as isize), &ma, "rotated(k).rotated(-k)")?;
        }
    }
    Ok(())
}

fn triple(c: &Words, obs: &mut Obs) -> Result<(), String> {
    let ms: Vec<Vec<i64>> = c.0.iter().map(|r| m_reduce(r)).collect();
    let (a, b, cc) = (fw(&c.0[0]), fw(&c.0[1]), fw(&c.0[2]));
    let l = &(&a * &b) * &cc;
    let r = &a * &(&b * &cc);
    let m = m_mul(&m_mul(&ms[0], &ms[1]), &ms[2]);
    obs.nontrivial(m.len() < ms[0].len() + ms[1].len() + ms[2].len());
    same(&l, &m, "(ab)c")?;
    same(&r, &m, "a(bc)")?;
    ensure!(l == r, "associativity");
    // in-place chain equals the pure product
    let mut x = a.clone();
    x *= &b;
    x *= &cc;
    same(&x, &m, "a *= b; a *= c")?;
    // transitivity of the order
    if a <= b && b <= cc {
        ensure!(a <= cc, "order not transitive: a={:?} b={:?} c={:?}", a, b, cc);
    }
    if a < b && b < cc {
        ensure!(a < cc, "strict order not transitive: a={:?} b={:?} c={:?}", a, b, cc);
    }
    // sorting through the crate order is stable with equality: a BTreeSet holds each value once
    let set: BTreeSet<FreeWord> = [a.clone(), b.clone(), cc.clone(), a.clone()].into_iter().collect();
    let distinct: BTreeSet<Vec<i64>> = ms.iter().cloned().collect();
    ensure!(set.len() == distinct.len(), "BTreeSet of words has {} members, model has {}", set.len(), distinct.len());
    Ok(())
}

fn m_relator_set(m: &[i64]) -> BTreeSet<Vec<i64>> {
    let mut s = BTreeSet::new();
    if m.is_empty() {
        s.insert(vec![]);
        return s;
    }
    for i in 0..m.len() {
        let r = m_rot(m, i as i64);
        s.insert(m_inv(&r));
        s.insert(r);
    }
    s
}

fn relator(c: &Words, obs: &mut Obs) -> Result<(), String> {
    let m = m_reduce(&c.0[0]);
    let w = fw(&c.0[0]);
    let cyc = m_cyc_reduced(&m);
    obs.nontrivial(m.len() >= 2);
    obs.classify(cyc, "cyclically reduced");
    obs.classify(!cyc, "not cyclically reduced");
    let set = m_relator_set(&m);
    // permutations = exactly that set
    let perms: BTreeSet<Vec<i64>> = relator_permutations(&w).iter().map(letters).collect();
    ensure!(perms == set, "relator_permutations gives {:?}, model set {:?}", perms, set);
    // representative = least element of the set under the crate's order
    let rep = relator_representative(&w);
    let lrep = letters(&rep);
    ensure!(set.contains(&lrep), "representative {:?} is not a rotation of the word or its inverse", lrep);
    for x in &set {
        let xw = fw(x);
        ensure!(rep <= xw, "representative {:?} is not least: {:?} is smaller", lrep, x);
    }
    if cyc {
        for x in &set {
            let r2 = letters(&relator_representative(&fw(x)));
            ensure!(r2 == lrep, "representative of {:?} is {:?} but of its rotation/inverse {:?} is {:?}", m, lrep, x, r2);
            let p2: BTreeSet<Vec<i64>> = relator_permutations(&fw(x)).iter().map(letters).collect();
            ensure!(p2 == set, "relator_permutations differs between {:?} and {:?}", m, x);
        }
    }
    Ok(())
}

// ---------------------------------------------------------------------------
// histories

#[derive(Clone, Debug)]
pub enum Op {
    New(usize, Vec<i64>),
    Clone(usize, usize),
    Mul(usize, usize, usize, u8),
    MulLetter(usize, usize, i64, bool),
    MulAssign(usize, usize),
    Inverse(usize, usize),
    Pow(usize, usize, i64),
    Comm(usize, usize, usize),
    Rot(usize, usize, i64),
}

#[derive(Clone, Debug)]
pub struct History(pub Vec<Op>);

impl Case for History {
    fn encode(&self) -> Value {
        Value::Array(
            self.0
                .iter()
                .map(|o| match o {
                    Op::New(r, w) => json!(["new", r, w]),
                    Op::Clone(r, s) => json!(["clone", r, s]),
                    Op::Mul(d, a, b, f) => json!(["mul", d, a, b, f]),
                    Op::MulLetter(d, a, l, o) => json!(["mul_letter", d, a, l, o]),
                    Op::MulAssign(d, s) => json!(["mul_assign", d, s]),
                    Op::Inverse(d, a) => json!(["inverse", d, a]),
                    Op::Pow(d, a, k) => json!(["pow", d, a, k]),
                    Op::Comm(d, a, b) => json!(["commutator", d, a, b]),
                    Op::Rot(d, a, k) => json!(["rotated", d, a, k]),
                })
                .collect(),
        )
    }
    fn decode(v: &Value) -> Option<Self> {
        let mut ops = vec![];
        for o in v.as_array()? {
            let a = o.as_array()?;
            let u = |i: usize| a.get(i).and_then(|x| x.as_u64()).map(|x| x as usize);
            let n = |i: usize| a.get(i).and_then(|x| x.as_i64());
            ops.push(match a.first()?.as_str()? {
                "new" => Op::New(u(1)?, dec_ints(a.get(2)?)?),
                "clone" => Op::Clone(u(1)?, u(2)?),
                "mul" => Op::Mul(u(1)?, u(2)?, u(3)?, u(4)? as u8),
                "mul_letter" => Op::MulLetter(u(1)?, u(2)?, n(3)?, a.get(4)?.as_bool()?),
                "mul_assign" => Op::MulAssign(u(1)?, u(2)?),
                "inverse" => Op::Inverse(u(1)?, u(2)?),
                "pow" => Op::Pow(u(1)?, u(2)?, n(3)?),
                "commutator" => Op::Comm(u(1)?, u(2)?, u(3)?),
                "rotated" => Op::Rot(u(1)?, u(2)?, n(3)?),
                _ => return None,
            });
        }
        Some(History(ops))
    }
    fn weight(&self) -> usize {
        self.0.len()
    }
}

const NREG: usize = 3;
const MAXLEN: usize = 3000;

pub fn history(c: &History, obs: &mut Obs) -> Result<(), String> {
    let mut regs: Vec<FreeWord> = vec![FreeWord::empty(); NREG];
    let mut model: Vec<Vec<i64>> = vec![vec![]; NREG];
    let mut cancel = false;
    for (step, op) in c.0.iter().enumerate() {
        match op {
            Op::New(r, w) => {
                model[*r] = m_reduce(w);
                regs[*r] = fw(w);
                cancel |= model[*r].len() < w.len();
            }
            Op::Clone(r, s) => {
                model[*r] = model[*s].clone();
                regs[*r] = regs[*s].clone();
            }
            Op::Mul(d, a, b, f) => {
                if model[*a].len() + model[*b].len() > MAXLEN {
                    continue;
                }
                let m = m_mul(&model[*a], &model[*b]);
                cancel |= m.len() < model[*a].len() + model[*b].len();
                let w = match f % 4 {
                    0 => &regs[*a] * &regs[*b],
                    1 => &regs[*a] * regs[*b].clone(),
                    2 => regs[*a].clone() * &regs[*b],
                    _ => regs[*a].clone() * regs[*b].clone(),
                };
                model[*d] = m;
                regs[*d] = w;
            }
            Op::MulLetter(d, a, l, owned) => {
                let m = m_mul(&model[*a], &[*l]);
                cancel |= m.len() < model[*a].len() + 1;
                let w = if *owned { regs[*a].clone() * (*l as isize) } else { &regs[*a] * (*l as isize) };
                model[*d] = m;
                regs[*d] = w;
            }
            Op::MulAssign(d, s) => {
                if model[*d].len() + model[*s].len() > MAXLEN {
                    continue;
                }
                let m = m_mul(&model[*d], &model[*s]);
                cancel |= m.len() < model[*d].len() + model[*s].len();
                let rhs = regs[*s].clone();
                regs[*d] *= &rhs;
                model[*d] = m;
                obs.class("history with *=");
            }
            Op::Inverse(d, a) => {
                model[*d] = m_inv(&model[*a]);
                regs[*d] = regs[*a].inverse();
            }
            Op::Pow(d, a, k) => {
                if model[*a].len() as i64 * k.abs() > MAXLEN as i64 {
                    continue;
                }
                model[*d] = m_pow(&model[*a], *k);
                regs[*d] = regs[*a].raised_to(*k as isize);
            }
            Op::Comm(d, a, b) => {
                if 2 * (model[*a].len() + model[*b].len()) > MAXLEN {
                    continue;
                }
                let (x, y) = (&model[*a], &model[*b]);
                let m = m_mul(&m_mul(&m_mul(x, y), &m_inv(x)), &m_inv(y));
                let w = regs[*a].commutator(&regs[*b]);
                model[*d] = m;
                regs[*d] = w;
            }
            Op::Rot(d, a, k) => {
                model[*d] = m_rot(&model[*a], *k);
                regs[*d] = regs[*a].rotated(*k as isize);
                obs.class("history with rotation");
            }
        }
        for r in 0..NREG {
            let l = letters(&regs[r]);
            ensure!(
                l == model[r],
                "after step {} ({:?}) register {} holds {:?}, the free-group model {:?}",
                step, op, r, l, model[r]
            );
            ensure!(regs[r].len() == l.len(), "len() inconsistent after step {}", step);
        }
        // equality of values is equality in the free group
        for r in 0..NREG {
            for s in 0..NREG {
                ensure!(
                    (regs[r] == regs[s]) == (model[r] == model[s]),
                    "after step {}: == between registers {} and {} disagrees with the free group",
                    step, r, s
                );
            }
        }
    }
    obs.nontrivial(cancel || obs.classes.iter().any(|c| c.starts_with("history with")));
    Ok(())
}

// ---------------------------------------------------------------------------
// generators

/// index -> raw sequence over {0, ±1..±g} of given length (mixed radix)
fn raw_from_index(mut idx: u64, len: usize, g: i64) -> Vec<i64> {
    let base = (2 * g + 1) as u64;
    let mut v = vec![];
    for _ in 0..len {
        let d = (idx % base) as i64;
        idx /= base;
        // 0 -> 0, 1..g -> +, g+1..2g -> -
        v.push(if d == 0 { 0 } else if d <= g { d } else { -(d - g) });
    }
    v
}

/// all reduced words over g generators up to length n
pub fn reduced_words(g: i64, n: usize) -> Vec<Vec<i64>> {
    let mut all = vec![vec![]];
    let mut layer = vec![vec![]];
    for _ in 0..n {
        let mut next = vec![];
        for w in &layer {
            for l in (1..=g).flat_map(|x| [x, -x]) {
                if w.last() != Some(&-l) {
                    let mut u: Vec<i64> = w.clone();
                    u.push(l);
                    next.push(u);
                }
            }
        }
        all.extend(next.iter().cloned());
        layer = next;
    }
    all
}

fn letter(g: i64) -> impl Strategy<Value = i64> + Clone {
    (1..=g, any::<bool>()).prop_map(|(x, neg)| if neg { -x } else { x })
}

/// random raw word: mixture of iid letters and "planted cancellation" segments w w^-1
fn raw_word(g: i64, max: usize) -> impl Strategy<Value = Vec<i64>> + Clone {
    prop::collection::vec(
        prop_oneof![
            4 => letter(g).prop_map(|l| vec![l]),
            1 => prop::collection::vec(letter(g), 1..6).prop_map(|w| { let mut v = w.clone(); v.extend(m_inv(&w)); v }),
            1 => Just(vec![0]),
        ],
        0..max,
    )
    .prop_map(|segs| segs.into_iter().flatten().collect())
}

fn op_strategy() -> impl Strategy<Value = Op> {
    let r = 0..NREG;
    prop_oneof![
        3 => (r.clone(), raw_word(3, 8)).prop_map(|(a, w)| Op::New(a, w)),
        1 => (r.clone(), r.clone()).prop_map(|(a, b)| Op::Clone(a, b)),
        3 => (r.clone(), r.clone(), r.clone(), 0u8..4).prop_map(|(d, a, b, f)| Op::Mul(d, a, b, f)),
        1 => (r.clone(), r.clone(), -3i64..=3, any::<bool>()).prop_map(|(d, a, l, o)| Op::MulLetter(d, a, l, o)),
        3 => (r.clone(), r.clone()).prop_map(|(d, s)| Op::MulAssign(d, s)),
        2 => (r.clone(), r.clone()).prop_map(|(d, a)| Op::Inverse(d, a)),
        1 => (r.clone(), r.clone(), -8i64..=8).prop_map(|(d, a, k)| Op::Pow(d, a, k)),
        1 => (r.clone(), r.clone(), r.clone()).prop_map(|(d, a, b)| Op::Comm(d, a, b)),
        2 => (r.clone(), r.clone(), -20i64..=20).prop_map(|(d, a, k)| Op::Rot(d, a, k)),
    ]
}

pub const SUB_CONSTRUCT: Sub<Words> = Sub {
    name: "construct",
    rule: "raw letter sequence (with zeros) -> FreeWord::new/from; non-trivial = some cancellation (raw length > reduced length)",
    check: construct,
    panic_discards: &[],
    journal: false,
};
pub const SUB_BINARY: Sub<Words> = Sub {
    name: "binary",
    rule: "pair of words: product in all operand forms incl. *=, letter product, inverse, commutator, order axioms; non-trivial = cancellation in a*b",
    check: binary,
    panic_discards: &[],
    journal: false,
};
pub const SUB_UNARY: Sub<Words> = Sub {
    name: "unary",
    rule: "(word, k): raised_to(k), rotated(k); non-trivial = word empty or not cyclically reduced (rotation must re-reduce)",
    check: unary,
    panic_discards: &[],
    journal: false,
};
pub const SUB_TRIPLE: Sub<Words> = Sub {
    name: "triple",
    rule: "triple of words: associativity, in-place chains, transitivity of the order; non-trivial = cancellation",
    check: triple,
    panic_discards: &[],
    journal: false,
};
pub const SUB_RELATOR: Sub<Words> = Sub {
    name: "relator",
    rule: "word: relator_representative is the least of all rotations of w and w^-1 (under the crate's own order), relator_permutations is exactly that set; non-trivial = length >= 2",
    check: relator,
    panic_discards: &[],
    journal: false,
};
pub const SUB_HISTORY: Sub<History> = Sub {
    name: "history",
    rule: "program over 3 word registers, model in lockstep after every step; non-trivial = some cancellation happened or the history has *= / rotation",
    check: history,
    panic_discards: &[],
    journal: false,
};

pub fn run(ctx: &mut Ctx) {
    let t = ctx.tier;
    ctx.rule = "exhaustive layers (all raw sequences / all pairs and triples of reduced words up to a length bound over 3 generators) plus proptest-generated long words and operation histories; oracle = Vec<i64> + stack reduction model of the free group; a case is non-trivial when cancellation actually occurs (see per-subcheck rules); distinct = distinct 64-bit hashes of the case".into();
    ctx.assume("letters are bounded away from isize::MIN (negation overflow is outside the domain)");
    ctx.assume("the order is only required to be a strict total order compatible with ==; the particular comparator is not asserted");

    // regression corpus first
    crate::props::run_regressions(ctx, "C10");

    // --- exhaustive
    ctx.layer("exhaustive");
    let maxlen = t.pick(6usize, 7usize);
    for len in 0..=maxlen {
        let n = 7u64.pow(len as u32);
        ctx.run_par_indexed(&SUB_CONSTRUCT, n, |i| Some(Words(vec![raw_from_index(i, len, 3)], 0)), Some(&format!("all raw sequences over {{0,+-1,+-2,+-3}} of length <= {}", maxlen)));
    }
    let ws = reduced_words(3, t.pick(4, 5));
    let nw = ws.len() as u64;
    ctx.run_par_indexed(
        &SUB_BINARY,
        nw * nw,
        |i| Some(Words(vec![ws[(i / nw) as usize].clone(), ws[(i % nw) as usize].clone()], 0)),
        Some(&format!("all ordered pairs of the {} reduced words of length <= {} over 3 generators", nw, t.pick(4, 5))),
    );
    let ws2 = reduced_words(3, 2);
    let n2 = ws2.len() as u64;
    ctx.run_par_indexed(
        &SUB_TRIPLE,
        n2 * n2 * n2,
        |i| Some(Words(vec![ws2[(i / n2 / n2) as usize].clone(), ws2[(i / n2 % n2) as usize].clone(), ws2[(i % n2) as usize].clone()], 0)),
        Some(&format!("all ordered triples of the {} reduced words of length <= 2 over 3 generators", n2)),
    );
    let wr = reduced_words(3, t.pick(5, 6));
    let nr = wr.len() as u64;
    ctx.run_par_indexed(&SUB_RELATOR, nr, |i| Some(Words(vec![wr[i as usize].clone()], 0)), Some(&format!("all {} reduced words of length <= {} over 3 generators", nr, t.pick(5, 6))));
    let wu = reduced_words(3, 4);
    let nu = wu.len() as u64;
    ctx.run_par_indexed(&SUB_UNARY, nu * 17, |i| Some(Words(vec![wu[(i / 17) as usize].clone()], (i % 17) as i64 - 8)), Some(&format!("all {} reduced words of length <= 4 x k in -8..=8", nu)));

    // --- random
    ctx.layer("random");
    let n = t.pick(20_000u32, 1_000_000u32);
    ctx.run_prop(&SUB_CONSTRUCT, || raw_word(6, 120).prop_map(|w| Words(vec![w], 0)), n);
    ctx.run_prop(&SUB_BINARY, || (raw_word(4, 60), raw_word(4, 60)).prop_map(|(a, b)| Words(vec![a, b], 0)), n);
    // pairs with planted cancellation: b starts with the inverse of a suffix of a
    ctx.run_prop(
        &SUB_BINARY,
        || (raw_word(3, 40), any::<u32>(), raw_word(3, 20)).prop_map(|(a, cut, tail)| {
            let ma = m_reduce(&a);
            let k = pick_index(cut, ma.len() + 1);
            let mut b = m_inv(&ma[ma.len() - k..]);
            b.extend(tail);
            Words(vec![a, b], 0)
        }),
        n,
    );
    ctx.run_prop(&SUB_TRIPLE, || (raw_word(3, 30), raw_word(3, 30), raw_word(3, 30)).prop_map(|(a, b, c)| Words(vec![a, b, c], 0)), n);
    // words that share a long prefix (independent random words differ within the first letters, so
    // comparisons never get past them) and near-periodic words u^k v (many rotations share long prefixes)
    ctx.layer("common-prefix");
    let cat = |p: &[i64], t: &[i64]| -> Vec<i64> { let mut v = p.to_vec(); v.extend_from_slice(t); v };
    ctx.run_prop(&SUB_BINARY, move || (raw_word(3, 48), raw_word(3, 6), raw_word(3, 6)).prop_map(move |(p, a, b)| Words(vec![cat(&p, &a), cat(&p, &b)], 0)), n);
    ctx.run_prop(&SUB_TRIPLE, move || (raw_word(3, 40), raw_word(3, 5), raw_word(3, 5), raw_word(3, 5)).prop_map(move |(p, a, b, c)| Words(vec![cat(&p, &a), cat(&p, &b), cat(&p, &c)], 0)), n / 2);
    let power = |u: &[i64], k: usize, v: &[i64]| -> Vec<i64> { let mut w = vec![]; for _ in 0..k { w.extend_from_slice(u); } w.extend_from_slice(v); w };
    ctx.run_prop(&SUB_RELATOR, move || (raw_word(3, 3), 2usize..=16, raw_word(3, 4)).prop_map(move |(u, k, v)| Words(vec![power(&u, k, &v)], 0)), n / 4);
    ctx.run_prop(&SUB_BINARY, move || (raw_word(3, 3), 2usize..=16, raw_word(3, 4), raw_word(3, 4)).prop_map(move |(u, k, v, w)| Words(vec![power(&u, k, &v), power(&u, k, &w)], 0)), n / 2);
    ctx.layer("random");
    ctx.run_prop(&SUB_UNARY, || (raw_word(3, 40), -30i64..=30).prop_map(|(a, k)| Words(vec![a], k)), n);
    ctx.run_prop(&SUB_RELATOR, || raw_word(3, 14).prop_map(|a| Words(vec![a], 0)), n / 4);
    let hl = t.pick(12, 24);
    ctx.run_prop(&SUB_HISTORY, || prop::collection::vec(op_strategy(), 0..hl).prop_map(History), t.pick(100_000, 3_000_000));
}

pub fn replay(ctx: &mut Ctx, sub: &str, case: &Value) -> Option<Result<(), String>> {
    Some(match sub {
        "construct" => ctx.run_one(&SUB_CONSTRUCT, &Words::decode(case)?),
        "binary" => ctx.run_one(&SUB_BINARY, &Words::decode(case)?),
        "unary" => ctx.run_one(&SUB_UNARY, &Words::decode(case)?),
        "triple" => ctx.run_one(&SUB_TRIPLE, &Words::decode(case)?),
        "relator" => ctx.run_one(&SUB_RELATOR, &Words::decode(case)?),
        "history" => ctx.run_one(&SUB_HISTORY, &History::decode(case)?),
        _ => return None,
    })
}
