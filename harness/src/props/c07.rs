//! C07 — the D-symbol generator is sound, complete and irredundant per geometry
use crate::ensure;
use crate::gen::dsets::*;
use crate::gen::dsyms::*;
use crate::model::*;
use crate::oracle::iso::*;
use crate::oracle::orb2::*;
use crate::runner::*;
use crate::util::*;
use num_rational::Rational64 as Q;
use num_traits::{Signed, Zero};
use proptest::prelude::*;
use rust_dsymbols::dsets::DSet;
use rust_dsymbols::generators::dsym_generators::{DSyms, Geometries};
use serde_json::Value;
use std::sync::atomic::{AtomicU64, Ordering};

static SYMBOLS_COMPARED: AtomicU64 = AtomicU64::new(0);
static ASSIGNMENTS_CLASSIFIED: AtomicU64 = AtomicU64::new(0);
use std::collections::{BTreeMap, BTreeSet};

#[derive(Clone, Debug, Hash)]
pub struct SetCase(pub DS);

impl Case for SetCase {
    fn encode(&self) -> Value {
        self.0.encode()
    }
    fn decode(v: &Value) -> Option<Self> {
        Some(SetCase(DS::decode(v)?))
    }
    fn weight(&self) -> usize {
        self.0.size
    }
    fn hash64(&self) -> u64 {
        h64(self)
    }
}

const VMAX: usize = 8;

struct Oracle {
    reps: Vec<(usize, usize)>,
    vmin: Vec<usize>,
    /// weight of an orbit in the curvature: 2 / v without mirror, 1 / v with
    kk: Vec<i64>,
    autos: Vec<Vec<usize>>,
}

impl Oracle {
    fn new(ds: &DS) -> Oracle {
        let reps = orbit_reps(ds);
        let vmin = reps.iter().map(|&(i, d)| match ds.r(i, i + 1, d) { 1 => 3, 2 => 2, _ => 1 }).collect();
        let kk = reps
            .iter()
            .map(|&(i, d)| if ds.orbit2(i, i + 1, d).iter().any(|&e| ds.op[i][e] == e || ds.op[i + 1][e] == e) { 1 } else { 2 })
            .collect();
        Oracle { reps, vmin, kk, autos: automorphisms(ds, false) }
    }

    /// curvature of an assignment: sum of k/v over (0,1)- and (1,2)-orbits minus size/2
    fn k(&self, ds: &DS, vs: &[usize]) -> Q {
        let mut s = -Q::new(ds.size as i64, 2);
        for (j, &v) in vs.iter().enumerate() {
            s += Q::new(self.kk[j], v as i64);
        }
        s
    }

    /// canonical representative of an assignment under the D-set's automorphisms: the minimal v-table
    fn key(&self, ds: &DS, vs: &[usize]) -> Vec<Vec<usize>> {
        let sym = assign(ds, &self.reps, vs);
        let mut best: Option<Vec<Vec<usize>>> = None;
        for a in &self.autos {
            // table of the symbol pulled back along a
            let t: Vec<Vec<usize>> = (0..ds.dim).map(|i| (0..=ds.size).map(|d| if d == 0 { 0 } else { sym.v[i][a[d]] }).collect()).collect();
            if best.as_ref().map_or(true, |b| t < *b) {
                best = Some(t);
            }
        }
        best.unwrap()
    }

    /// all assignments with vmin <= v <= VMAX and curvature >= 0 (monotone pruning)
    fn nonnegative(&self, ds: &DS) -> Vec<Vec<usize>> {
        let mut out = vec![];
        let mut vs = self.vmin.clone();
        fn rec(o: &Oracle, ds: &DS, pos: usize, vs: &mut Vec<usize>, out: &mut Vec<Vec<usize>>) {
            // the rest is at vmin: the largest curvature any completion can have
            if o.k(ds, vs).is_negative() {
                return;
            }
            if pos == vs.len() {
                out.push(vs.clone());
                return;
            }
            for v in o.vmin[pos]..=VMAX {
                vs[pos] = v;
                rec(o, ds, pos + 1, vs, out);
            }
            vs[pos] = o.vmin[pos];
        }
        rec(self, ds, 0, &mut vs, &mut out);
        out
    }
}

#[derive(Default)]
struct Expected {
    spherical: BTreeSet<Vec<Vec<usize>>>,
    euclidean: BTreeSet<Vec<Vec<usize>>>,
    hyperbolic: BTreeSet<Vec<Vec<usize>>>,
}

fn expected(ds: &DS, o: &Oracle) -> Result<Expected, String> {
    let mut e = Expected::default();
    let good: BTreeSet<Orb> = GOOD_SPHERICAL.iter().map(|s| parse_conway(s).unwrap()).collect();
    let nonneg = o.nonnegative(ds);
    ASSIGNMENTS_CLASSIFIED.fetch_add(nonneg.len() as u64 * (1 + o.reps.len() as u64), Ordering::Relaxed);
    let nonneg_set: BTreeSet<&Vec<usize>> = nonneg.iter().collect();
    for vs in &nonneg {
        let k = o.k(ds, vs);
        if k.is_zero() {
            ensure!(vs.iter().all(|&v| v < VMAX), "harness: a euclidean assignment reaches the enumeration bound {}", VMAX);
            e.euclidean.insert(o.key(ds, vs));
        } else if vs.iter().all(|&v| v <= 7) {
            let sym = assign(ds, &o.reps, vs);
            let orb = invariants(&sym)?;
            ensure!(curvature(&sym) == k, "harness: curvature formulas disagree");
            if good.contains(&orb) {
                e.spherical.insert(o.key(ds, vs));
            }
        }
    }
    // minimal hyperbolic: negative, and non-negative after lowering any single v > vmin by one
    let mut cands: Vec<Vec<usize>> = vec![o.vmin.clone()];
    for vs in &nonneg {
        for j in 0..vs.len() {
            let mut w = vs.clone();
            w[j] += 1;
            cands.push(w);
        }
    }
    for w in cands {
        if !o.k(ds, &w).is_negative() {
            continue;
        }
        let minimal = (0..w.len()).all(|j| {
            if w[j] > o.vmin[j] {
                let mut l = w.clone();
                l[j] -= 1;
                // l has v <= VMAX + 0 in every position that matters; membership in the non-negative set is exact
                !o.k(ds, &l).is_negative() && (nonneg_set.contains(&l) || l.iter().any(|&v| v > VMAX))
            } else {
                true
            }
        });
        if minimal {
            ensure!(w.iter().all(|&v| v < VMAX), "harness: a minimally hyperbolic assignment reaches the enumeration bound {}: {:?}", VMAX, w);
            e.hyperbolic.insert(o.key(ds, &w));
        }
    }
    Ok(e)
}

/// run the generator for one geometry, validate every item, return the keys
fn generated(ds: &DS, o: &Oracle, geom: Geometries, name: &str) -> Result<Vec<(Vec<Vec<usize>>, DS)>, String> {
    let set = ds.to_simple_dset();
    let mut out = vec![];
    for (n, s) in DSyms::new(&set, geom).enumerate() {
        ensure!(s.symbol_count() == n + 1, "{}: item {} is numbered {}", name, n + 1, s.symbol_count());
        let sym = DS::from_dsym(&s);
        ensure!(sym.dset() == ds.dset(), "{}: item {} does not live on the given D-set: {}", name, n + 1, sym.text());
        ensure!(sym.is_complete() && sym.v_consistent(), "{}: item {} is not complete: {}", name, n + 1, sym.text());
        for i in 0..2 {
            for d in 1..=sym.size {
                ensure!(sym.m(i, d) >= 3, "{}: item {} = {} has a degree below 3", name, n + 1, sym.text());
            }
        }
        let vs: Vec<usize> = o.reps.iter().map(|&(i, d)| sym.v[i][d]).collect();
        let k = o.k(ds, &vs);
        ensure!(k == curvature(&sym), "harness: curvature formulas disagree");
        let sign_ok = match geom {
            Geometries::Spherical => k.is_positive(),
            Geometries::Euclidean => k.is_zero(),
            Geometries::Hyperbolic => k.is_negative(),
            Geometries::All => true,
        };
        ensure!(sign_ok, "{}: item {} = {} has curvature {}", name, n + 1, sym.text(), k);
        out.push((o.key(ds, &vs), sym));
    }
    // iterator protocol: nth / skip / step_by / take / last / count agree with repeated next(), counters included
    if out.len() <= 400 {
        crate::util::iter_protocol(|| DSyms::new(&set, geom), |s| format!("{}", s), 6, name)?;
    }
    // pairwise non-isomorphic as symbols
    let mut seen: BTreeMap<Vec<usize>, &DS> = BTreeMap::new();
    for (_, sym) in &out {
        if let Some(prev) = seen.insert(canonical_code(sym, true), sym) {
            return Err(format!("{}: two isomorphic symbols in the output: {} and {}", name, prev.text(), sym.text()));
        }
    }
    Ok(out)
}

fn describe(ds: &DS, o: &Oracle, key: &Vec<Vec<usize>>) -> String {
    let mut s = ds.clone();
    for i in 0..ds.dim {
        s.v[i] = key[i].clone();
    }
    let _ = o;
    s.text()
}

fn check_set(c: &SetCase, obs: &mut Obs) -> Result<(), String> {
    let ds = &c.0;
    ensure!(ds.dim == 2 && ds.is_connected() && ds.ops_are_involutions() && ds.commutes(), "harness: case is not a connected complete 2D D-set");
    let o = Oracle::new(ds);
    let e = expected(ds, &o)?;
    let mut union: BTreeSet<Vec<Vec<usize>>> = BTreeSet::new();
    for (geom, name, want) in [(Geometries::Spherical, "spherical", &e.spherical), (Geometries::Euclidean, "euclidean", &e.euclidean), (Geometries::Hyperbolic, "hyperbolic", &e.hyperbolic)] {
        let got = generated(ds, &o, geom, name)?;
        let keys: BTreeSet<Vec<Vec<usize>>> = got.iter().map(|g| g.0.clone()).collect();
        ensure!(keys.len() == got.len(), "{}: two outputs on {} are related by an automorphism of the D-set", name, ds.text());
        for (k, sym) in &got {
            ensure!(want.contains(k), "{} output {} is not one of the admissible {} assignments on {}", name, sym.text(), name, ds.text());
        }
        for k in want {
            ensure!(keys.contains(k), "{} output on {} misses the admissible assignment {}", name, ds.text(), describe(ds, &o, k));
        }
        for k in keys {
            ensure!(union.insert(k), "the three geometry outputs on {} are not disjoint", ds.text());
        }
    }
    let all = generated(ds, &o, Geometries::All, "all")?;
    SYMBOLS_COMPARED.fetch_add(all.len() as u64, Ordering::Relaxed);
    let all_keys: BTreeSet<Vec<Vec<usize>>> = all.iter().map(|g| g.0.clone()).collect();
    ensure!(all_keys.len() == all.len(), "all: two outputs on {} are related by an automorphism of the D-set", ds.text());
    ensure!(all_keys == union, "the 'all' output on {} ({} symbols) is not the union of the three geometry outputs ({} symbols)", ds.text(), all_keys.len(), union.len());
    let base_k = o.k(ds, &o.vmin);
    obs.nontrivial((!base_k.is_negative() && o.reps.len() >= 2) || o.autos.len() > 1);
    obs.classify(!base_k.is_negative(), "base curvature >= 0 (backtracking branch)");
    obs.classify(o.autos.len() > 1, "D-set has non-trivial automorphisms");
    obs.classify(!e.spherical.is_empty(), "has spherical outputs");
    obs.classify(!e.euclidean.is_empty(), "has euclidean outputs");
    obs.classify(e.hyperbolic.len() > 1, "has several minimal hyperbolic outputs");
    Ok(())
}

pub const SUB_SET: Sub<SetCase> = Sub {
    name: "per_dset",
    rule: "connected complete 2D D-set x the four geometry settings: items valid (on the D-set, complete, degrees >= 3, curvature sign, numbered, pairwise non-isomorphic) and, as sets modulo D-set automorphisms, equal to the harness's classification of ALL assignments vmin <= v <= 8 (euclidean = K 0; hyperbolic = K < 0 and K >= 0 after lowering any single v; spherical = K > 0, v <= 7, own orbifold invariants on the fixed list of 31); 'all' = disjoint union; non-trivial = base curvature >= 0 with >= 2 orbits, or non-trivial automorphism group",
    check: check_set,
    panic_discards: &[],
    journal: false,
};

/// large D-sets (many 2-orbits): validity, irredundancy and the disjoint-union law only; the exhaustive
/// classification of all assignments is not affordable there
fn check_big(c: &SetCase, obs: &mut Obs) -> Result<(), String> {
    let ds = &c.0;
    ensure!(ds.dim == 2 && ds.is_connected() && ds.ops_are_involutions() && ds.commutes(), "harness: case is not a connected complete 2D D-set");
    let o = Oracle::new(ds);
    let mut union: BTreeSet<Vec<Vec<usize>>> = BTreeSet::new();
    let mut total = 0;
    for (geom, name) in [(Geometries::Spherical, "spherical"), (Geometries::Euclidean, "euclidean"), (Geometries::Hyperbolic, "hyperbolic")] {
        let got = generated(ds, &o, geom, name)?;
        let keys: BTreeSet<Vec<Vec<usize>>> = got.iter().map(|g| g.0.clone()).collect();
        ensure!(keys.len() == got.len(), "{}: two outputs on {} are related by an automorphism of the D-set", name, ds.text());
        total += got.len();
        for k in keys {
            ensure!(union.insert(k), "the three geometry outputs on {} are not disjoint", ds.text());
        }
    }
    let all = generated(ds, &o, Geometries::All, "all")?;
    SYMBOLS_COMPARED.fetch_add(all.len() as u64, Ordering::Relaxed);
    let all_keys: BTreeSet<Vec<Vec<usize>>> = all.iter().map(|g| g.0.clone()).collect();
    ensure!(all_keys.len() == all.len(), "all: two outputs on {} are related by an automorphism of the D-set", ds.text());
    ensure!(all_keys == union, "the 'all' output on {} ({} symbols) is not the union of the three geometry outputs ({} symbols)", ds.text(), all_keys.len(), union.len());
    obs.nontrivial(total >= 2);
    obs.classify(o.reps.len() > 21, "more than 21 orbits");
    obs.classify(o.reps.len() > 32, "more than 32 orbits");
    obs.classify(o.autos.len() > 1, "D-set has non-trivial automorphisms");
    Ok(())
}

pub const SUB_BIG: Sub<SetCase> = Sub {
    name: "per_large_dset",
    rule: "connected complete 2D D-set with 15 to 40 2-orbits (flag sets of prisms, antiprisms, Platonic and Archimedean-like maps from finite universal covers) x the four geometry settings: items valid (on the D-set, complete, degrees >= 3, curvature sign, numbered), pairwise non-isomorphic as symbols and pairwise inequivalent under the D-set's automorphisms, the three geometry outputs disjoint and 'all' their union; non-trivial = at least 2 outputs",
    check: check_big,
    panic_discards: &[],
    journal: false,
};

pub fn run(ctx: &mut Ctx) {
    let t = ctx.tier;
    ctx.rule = "all connected complete 2D D-sets of the harness's brute-force enumeration up to a size bound (exhaustive) and proptest-generated random renumbered 2D D-sets above it, each crossed with the four geometry settings; oracle enumerates every branching assignment up to 8 with exact rational curvature and own orbifold invariants".into();
    ctx.assume("the bound 8 contains every admissible assignment (spherical capped at 7 by definition, euclidean orders are 2,3,4,6, minimal hyperbolic needs v <= 7); the harness asserts that no euclidean or minimally hyperbolic assignment touches 8");
    crate::props::run_regressions(ctx, "C07");
    ctx.layer("exhaustive");
    let maxn = t.pick(8, 11);
    let cases: Vec<SetCase> = dsets_up_to(2, maxn).into_iter().map(SetCase).collect();
    let n = cases.len();
    ctx.run_par(&SUB_SET, cases, Some(&format!("all {} connected complete 2D D-sets with <= {} chambers x 4 geometries", n, maxn)));
    // beyond the brute-force enumeration the D-sets come from the crate's own D-set generator (any valid
    // D-set is a legitimate input; each is re-validated by the table model): all of them up to a larger size
    ctx.layer("generator-dsets");
    let deep = t.pick(15usize, 16usize);
    let mut more: Vec<SetCase> = rust_dsymbols::generators::dset_generators::DSets::new(2, deep)
        .map(|s| DS::from_dset(&s))
        .filter(|ds| ds.size > maxn && ds.ops_are_involutions() && ds.is_connected())
        .map(|ds| SetCase(ds.dset()))
        .collect();
    more.sort_by_key(|c| std::cmp::Reverse(c.0.size));
    let nm = more.len();
    ctx.run_par(&SUB_SET, more, Some(&format!("all {} D-sets with {}..={} chambers listed by the crate's D-set generator x 4 geometries", nm, maxn + 1, deep)));
    // D-sets that no enumeration by size reaches: flag sets of maps on the sphere and the torus (finite
    // universal covers of spherical symbols, toroidal covers of euclidean ones) and low-index covers of
    // small symbols, 16 to 48 chambers. The crate's cover routines are only a SOURCE of inputs here
    // (every D-set is re-validated by the table model; covers are C05's business).
    ctx.layer("cover-dsets");
    {
        use rayon::prelude::*;
        let small = dsets_up_to(2, t.pick(4, 5));
        let mut bases: Vec<DS> = vec![];
        for ds in &small {
            bases.extend(assignments(ds, 5, t.pick(40, 200)).0);
        }
        let max_size = t.pick(48usize, 60usize);
        let max_orbits = t.pick(14usize, 16usize);
        let found: Vec<DS> = bases
            .par_iter()
            .flat_map(|x| {
                let mut out: Vec<DS> = vec![];
                let k = curvature(x);
                let px = x.to_partial();
                if k.is_positive() {
                    // order of the orbifold group 4 / K for good orbifolds
                    let order = Q::from(4) / k;
                    if order.is_integer() && (*order.numer() as usize) * x.size <= max_size {
                        if let Ok(u) = guarded(|| DS::from_dsym(&rust_dsymbols::covers::finite_universal_cover(&px))) {
                            out.push(u.dset());
                        }
                    }
                } else if k.is_zero() && (0..2).all(|i| (1..=x.size).all(|d| x.m(i, d) >= 3)) {
                    if let Ok(u) = guarded(|| DS::from_dsym(&rust_dsymbols::delaney2d::toroidal_cover(&px))) {
                        out.push(u.dset());
                    }
                } else if x.size >= 6 {
                    if let Ok(cs) = guarded(|| rust_dsymbols::covers::covers(&px, 3).iter().map(|c| DS::from_dsym(c).dset()).collect::<Vec<_>>()) {
                        out.extend(cs.into_iter().take(6));
                    }
                }
                out.into_iter().filter(|d| d.size >= 16 && d.size <= max_size && d.ops_are_involutions() && d.is_connected() && d.commutes() && orbit_reps(d).len() <= max_orbits).collect::<Vec<_>>()
            })
            .collect();
        let mut by_code: BTreeMap<Vec<usize>, DS> = BTreeMap::new();
        for d in found {
            by_code.entry(canonical_code(&d, false)).or_insert(d);
        }
        let mut cases: Vec<SetCase> = by_code.into_values().map(SetCase).collect();
        cases.sort_by_key(|c| std::cmp::Reverse(c.0.size));
        let nc = cases.len();
        let spheres = cases.iter().filter(|c| { let d = &c.0; let loopless = (0..=2).all(|i| (1..=d.size).all(|e| d.op[i][e] != e)); loopless && two_colouring(d).is_some() }).count();
        ctx.note(format!("cover-dsets: {} pairwise non-isomorphic D-sets with 16..={} chambers and at most {} orbits ({} of them loopless and orientable: maps on closed orientable surfaces)", nc, max_size, max_orbits, spheres));
        ctx.run_par(&SUB_SET, cases, None);
    }
    // the same sources with many more orbits: validity and irredundancy only
    ctx.layer("large-cover-dsets");
    {
        use rayon::prelude::*;
        let mut bases: Vec<DS> = vec![];
        for n in 1..=3usize {
            for ds in dsets_of_size(2, n) {
                bases.extend(assignments(&ds, if n <= 2 { 10 } else { 5 }, 400).0);
            }
        }
        let max_size = t.pick(120usize, 168usize);
        let found: Vec<DS> = bases
            .par_iter()
            .filter_map(|x| {
                let k = curvature(x);
                if !k.is_positive() {
                    return None;
                }
                let order = Q::from(4) / k;
                if !(order.is_integer() && (*order.numer() as usize) * x.size <= max_size) {
                    return None;
                }
                let u = guarded(|| DS::from_dsym(&rust_dsymbols::covers::finite_universal_cover(&x.to_partial()))).ok()?.dset();
                let n_orb = orbit_reps(&u).len();
                if u.size >= 48 && u.size <= max_size && u.ops_are_involutions() && u.is_connected() && u.commutes() && n_orb >= 15 && n_orb <= 40 { Some(u) } else { None }
            })
            .collect();
        let mut by_code: BTreeMap<Vec<usize>, DS> = BTreeMap::new();
        for d in found {
            by_code.entry(canonical_code(&d, false)).or_insert(d);
        }
        let mut cases: Vec<SetCase> = by_code.into_values().map(SetCase).collect();
        cases.sort_by_key(|c| std::cmp::Reverse(c.0.size));
        cases.truncate(t.pick(12, 40));
        ctx.note(format!("large-cover-dsets: {} D-sets with 48..={} chambers and 15..=40 orbits: {:?} (chambers, orbits)", cases.len(), max_size, cases.iter().map(|c| (c.0.size, orbit_reps(&c.0).len())).collect::<Vec<_>>()));
        ctx.run_par(&SUB_BIG, cases, None);
    }
    ctx.layer("random");
    ctx.run_prop(
        &SUB_SET,
        || (connected_dset_strategy(2, 8..=12), prop::collection::vec((any::<u32>(), any::<u32>()), 0..8)).prop_map(|(ds, sw)| SetCase(ds.renumbered(&perm_from_swaps(ds.size, &sw)))),
        t.pick(3_000, 300_000),
    );
    counters(ctx);
}

fn counters(ctx: &mut Ctx) {
    ctx.note(format!("{} generated symbols compared with the classification of {} assignments (non-negative ones and their one-step raisings)", SYMBOLS_COMPARED.load(Ordering::Relaxed), ASSIGNMENTS_CLASSIFIED.load(Ordering::Relaxed)));
}

pub fn replay(ctx: &mut Ctx, sub: &str, case: &Value) -> Option<Result<(), String>> {
    Some(match sub {
        "per_dset" => ctx.run_one(&SUB_SET, &SetCase::decode(case)?),
        "per_large_dset" => ctx.run_one(&SUB_BIG, &SetCase::decode(case)?),
        _ => return None,
    })
}
