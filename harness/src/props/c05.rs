//! C05 — every cover constructor returns a genuine covering of the base symbol
use crate::ensure;
use crate::gen::covers::*;
use crate::gen::dsets::dsets_up_to;
use crate::gen::dsyms::*;
use crate::model::*;
use crate::oracle::fg::own_fundamental_group;
use crate::oracle::groups::*;
use crate::oracle::orb2;
use crate::props::c09::crate_presentation;
use crate::props::c11::fw;
use crate::runner::*;
use crate::util::*;
use num_rational::Rational64 as Q;
use proptest::prelude::*;
use rust_dsymbols::covers::{cover_for_table, covers, finite_universal_cover, subgroup_cover};
use rust_dsymbols::fpgroups::cosets::{coset_tables, CosetTable};
use rust_dsymbols::derived::oriented_cover;
use rust_dsymbols::fpgroups::free_words::FreeWord;
use rust_dsymbols::fundamental_group::fundamental_group;
use serde_json::{json, Value};
use std::collections::BTreeMap;

#[derive(Clone, Debug, Hash)]
pub struct CovCase {
    pub ds: DS,
    /// sheet bound for covers() (0 = skip)
    pub k: usize,
    /// subgroup generators for subgroup_cover, in the crate's generator numbering (letters are mapped into range)
    pub words: Vec<Word>,
    /// also ask for the finite universal cover
    pub universal: bool,
}

impl Case for CovCase {
    fn encode(&self) -> Value {
        json!({"symbol": self.ds.encode(), "max_sheets": self.k, "subgroup_words": self.words, "universal": self.universal})
    }
    fn decode(v: &Value) -> Option<Self> {
        Some(CovCase { ds: DS::decode(v.get("symbol")?)?, k: v.get("max_sheets")?.as_u64()? as usize, words: dec_words(v.get("subgroup_words")?)?, universal: v.get("universal")?.as_bool()? })
    }
    fn weight(&self) -> usize {
        self.ds.size * (self.k + 1)
    }
    fn hash64(&self) -> u64 {
        h64(self)
    }
}

/// generic checks on a claimed cover; returns the sheet number
fn check_cover(x: &DS, y: &DS, what: &str) -> Result<usize, String> {
    ensure!(y.ops_are_involutions(), "{}: result is not complete / not made of involutions", what);
    let k = check_projection(x, y).map_err(|e| {
        // diagnostic: is it a cover under some other numbering?
        let other = y.is_connected() && (1..=x.size).any(|e| crate::oracle::iso::morphism(y, x, e, true).is_some());
        format!("{}: {} [{}]", what, e, if other { "a covering morphism exists under another numbering: wrong numbering" } else { "no covering morphism exists at all: not a cover" })
    })?;
    ensure!(y.is_connected(), "{}: cover with {} sheets is not connected", what, k);
    Ok(k)
}

fn check_cov(c: &CovCase, obs: &mut Obs) -> Result<(), String> {
    let x = &c.ds;
    ensure!(x.is_complete() && x.ops_are_involutions() && x.v_consistent() && x.is_connected() && x.commutes(), "harness: case is not a connected complete D-symbol");
    let px = x.to_partial();
    let mut nontrivial = false;
    let has_feature = (0..=x.dim).any(|i| (1..=x.size).any(|d| x.op[i][d] == d)) || (0..x.dim).any(|i| (1..=x.size).any(|d| x.v[i][d] > 1));

    // ---- oriented cover
    let oc = DS::from_dsym(&oriented_cover(&px));
    let sheets = check_cover(x, &oc, "oriented_cover")?;
    let loopless = |y: &DS| (0..=y.dim).all(|i| (1..=y.size).all(|d| y.op[i][d] != d));
    ensure!(orb2::two_colouring(&oc).is_some() && loopless(&oc), "oriented_cover({}) = {} is not oriented", x.text(), oc.text());
    let x_oriented = orb2::two_colouring(x).is_some() && loopless(x);
    ensure!(sheets == if x_oriented { 1 } else { 2 }, "oriented_cover has {} sheet(s) over a base that is {}oriented", sheets, if x_oriented { "" } else { "not " });
    let ocs = DS::from_dsym(&oriented_cover(&x.to_simple()));
    ensure!(ocs == oc, "oriented cover differs between representations");

    // ---- covers up to k sheets: one per equivalence class
    if c.k >= 1 {
        let f = frame(x);
        let mut expect: BTreeMap<usize, Vec<Vec<usize>>> = BTreeMap::new();
        let mut over = false;
        for j in 1..=c.k {
            // the brute force enumerates all of S_j: 720 permutations at most; for the deep layer
            // (bounds >= 6) it is only run up to 4 sheets, the rest is validity and irredundancy
            if j > 6 || (c.k >= 6 && j > 4) {
                over = true;
                break;
            }
            match cover_classes(x, &f, j, 3_000_000) {
                Some(cl) => {
                    expect.insert(j, cl.into_iter().map(|(code, _)| code).collect());
                }
                None => {
                    over = true;
                    break;
                }
            }
        }
        if over {
            obs.class("brute-force cover search over budget (counting skipped)");
        }
        let list = covers(&px, c.k);
        let mut got: BTreeMap<usize, Vec<Vec<usize>>> = BTreeMap::new();
        for (n, y) in list.iter().enumerate() {
            let y = DS::from_dsym(y);
            let j = check_cover(x, &y, &format!("covers(.., {}) item #{}", c.k, n + 1))?;
            ensure!(j <= c.k, "covers(.., {}) item #{} has {} sheets", c.k, n + 1, j);
            let volt = voltages_from_cover(x, &f, &y).map_err(|e| format!("covers item #{}: {}", n + 1, e))?;
            got.entry(j).or_default().push(canonical_voltages(&volt, j));
            nontrivial |= j >= 2 && has_feature;
        }
        for j in 1..=c.k {
            let mut g = got.get(&j).cloned().unwrap_or_default();
            g.sort();
            let before = g.len();
            g.dedup();
            ensure!(g.len() == before, "covers({}, {}) lists two equivalent {}-sheeted covers (same conjugacy class of subgroups twice)", x.text(), c.k, j);
        }
        obs.classify(c.k >= 6, "deep sheet bound (>= 6): validity and irredundancy of every listed cover");
        {
            // every sheet number for which the brute force finished is compared in full
            for j in 1..=c.k {
                let mut g = got.get(&j).cloned().unwrap_or_default();
                let e = match expect.get(&j) {
                    Some(e) => e.clone(),
                    None => continue,
                };
                g.sort();
                for code in &g {
                    ensure!(e.contains(code), "covers({}, {}) contains a {}-sheeted cover that the brute-force search over voltage assignments does not find", x.text(), c.k, j);
                }
                ensure!(g.len() == e.len(), "{} has {} classes of connected {}-sheeted covers (brute force over voltage assignments), covers() lists {}", x.text(), e.len(), j, g.len());
            }
            if !over {
                obs.class("cover classes counted against brute force");
            } else if !expect.is_empty() {
                obs.class(&format!("cover classes counted against brute force up to {} sheets only", expect.len()));
            }
        }
    }

    // ---- cover belonging to a subgroup
    if !c.words.is_empty() || c.universal {
        let cp = crate_presentation(x, false)?;
        let g = cp.nr_gens as i64;
        let words: Vec<Word> = if g == 0 || c.universal { vec![] } else { c.words.iter().map(|w| free_reduce(&w.iter().map(|&l| { let a = (l.abs() - 1) % g + 1; if l > 0 { a } else { -a } }).collect::<Vec<_>>())).filter(|w| !w.is_empty()).collect() };
        let limit = 3_000;
        if let Some(own) = todd_coxeter(cp.nr_gens, &cp.rels, &words, limit) {
            // finite index (below the limit): the cover must be the same based action of the crate's generators
            if own.len() * x.size <= 6000 {
                let fws: Vec<FreeWord> = words.iter().map(|w| fw(w)).collect();
                // the reference enumeration finished below 3000 rows: running into the crate's limit of
                // 100 000 rows here is not "too hard" but an enumeration that does not converge
                let y = match guarded(|| if c.universal { DS::from_dsym(&finite_universal_cover(&px)) } else { DS::from_dsym(&subgroup_cover(&px, &fws)) }) {
                    Ok(y) => y,
                    Err(m) if m.contains("Reached coset table limit") && todd_coxeter(cp.nr_gens, &cp.rels, &[], 3_000).is_none() => {
                        // an infinite (or large) group: the crate's row-by-row strategy may legitimately need more rows
                        obs.discard("Reached coset table limit in an infinite or large group");
                        return Ok(());
                    }
                    Err(m) if m.contains("Reached coset table limit") => return Err(format!("{} gives up at the coset table limit of 100 000 rows although the subgroup has index {} in a group of order < 3000 (reference enumeration)", if c.universal { "finite_universal_cover".to_string() } else { format!("subgroup_cover({:?})", words) }, own.len())),
                    Err(m) => return Err(format!("panic: {}", m)),
                };
                let what = if c.universal { "finite_universal_cover".to_string() } else { format!("subgroup_cover({:?})", words) };
                let k = check_cover(x, &y, &what)?;
                ensure!(k == own.len(), "{}: {} sheets, but the subgroup has index {} (reference Todd-Coxeter over the returned presentation)", what, k, own.len());
                // action of the crate's generators on the sheets, read off the cover
                let fg = fundamental_group(&px);
                let n = x.size;
                let mut fwd = vec![vec![0usize; cp.nr_gens]; k];
                for (&gen, &(d, i)) in &fg.gen_to_edge {
                    for s in 0..k {
                        let z = y.op[i][s * n + d];
                        fwd[s][gen - 1] = (z - 1) / n;
                    }
                }
                let act = Table::from_forward(cp.nr_gens, fwd).ok_or_else(|| format!("{}: a generator does not act as a permutation on the sheets", what))?;
                ensure!(act.relators_close(&cp.rels).is_none(), "{}: the sheet action violates a relator", what);
                if cp.nr_gens > 0 {
                    ensure!(act.is_transitive() && act.based_code(0) == own.based_code(0), "{}: sheet 0 is not stabilised by exactly the given subgroup (based action differs from the reference coset table)", what);
                }
                if c.universal {
                    // the sphere certificate applies to good orbifolds only (a bad orbifold is its own
                    // universal cover and keeps its cone / corner points)
                    if x.dim == 2 && !orb2::invariants(x)?.is_bad() {
                        let ky = orb2::curvature(&y);
                        ensure!(orb2::two_colouring(&y).is_some() && loopless(&y), "finite universal cover is not oriented");
                        ensure!((0..2).all(|i| (1..=y.size).all(|d| y.v[i][d] == 1)), "finite universal cover still has branching");
                        ensure!(ky == Q::from(4), "finite universal cover has curvature {} (Euler characteristic {}), expected a sphere", ky, ky / Q::from(2));
                    }
                    let oy = own_fundamental_group(&y);
                    match todd_coxeter(oy.pres.nr_gens, &oy.pres.rels, &[], 50_000) {
                        Some(t) => ensure!(t.len() == 1, "the fundamental group of the finite universal cover has order {} (textbook presentation, reference Todd-Coxeter)", t.len()),
                        None => obs.class("triviality of the universal cover's group not decided within the row limit"),
                    }
                    obs.class("finite universal cover checked");
                } else {
                    obs.class("subgroup cover checked");
                }
                nontrivial |= k >= 2 && has_feature;
            }
        } else {
            obs.class("subgroup of infinite / large index (skipped)");
        }
    }
    obs.nontrivial(nontrivial);
    obs.class(&format!("dim {}", x.dim));
    Ok(())
}

pub const SUB_COV: Sub<CovCase> = Sub {
    name: "covers",
    rule: "(connected symbol, sheet bound k, subgroup words, universal?): every returned cover is complete, connected and a covering under the documented projection d -> (d-1) mod |base| + 1 (operations commute, degrees preserved); oriented cover oriented with 1 or 2 sheets; covers(x,k) as covers-with-projection = exactly the equivalence classes found by brute force over voltage assignments; subgroup / universal cover has index-many sheets and the same based sheet action as the reference coset table, universal cover has trivial group (2D: branch-free oriented sphere); non-trivial = a cover with >= 2 sheets of a base with a mirror or cone",
    check: check_cov,
    panic_discards: &["Reached coset table limit"],
    journal: false,
};


/// cover_for_table on coset-table objects with a history: one `CosetTable` value is filled through the
/// public `set`, used, overwritten with another valid table of the same group and used again
#[derive(Clone, Debug, Hash)]
pub struct TabCase {
    pub ds: DS,
    /// row bound for the pool of tables
    pub k: usize,
    /// (which table of the pool, renumbering of its rows as transpositions, keep using the previous object?, call through a clone?)
    pub steps: Vec<(u32, Vec<(u32, u32)>, bool, bool)>,
}

impl Case for TabCase {
    fn encode(&self) -> Value {
        json!({"symbol": self.ds.encode(), "max_rows": self.k, "steps": self.steps.iter().map(|(p, sw, reuse, cl)| json!({"pick": p, "row_swaps": sw.iter().map(|s| json!([s.0, s.1])).collect::<Vec<_>>(), "reuse_object": reuse, "through_clone": cl})).collect::<Vec<_>>()})
    }
    fn decode(v: &Value) -> Option<Self> {
        let steps = v.get("steps")?.as_array()?.iter().map(|s| {
            Some((s.get("pick")?.as_u64()? as u32, s.get("row_swaps")?.as_array()?.iter().filter_map(|p| Some((p.get(0)?.as_u64()? as u32, p.get(1)?.as_u64()? as u32))).collect(), s.get("reuse_object")?.as_bool()?, s.get("through_clone")?.as_bool()?))
        }).collect::<Option<Vec<_>>>()?;
        Some(TabCase { ds: DS::decode(v.get("symbol")?)?, k: v.get("max_rows")?.as_u64()? as usize, steps })
    }
    fn weight(&self) -> usize {
        self.ds.size * (self.k + 1) + self.steps.len()
    }
    fn hash64(&self) -> u64 {
        h64(self)
    }
}

/// rows of a table renumbered by a permutation of 0..n (given 1-based by perm_from_swaps)
pub fn renumber_rows(t: &Table, swaps: &[(u32, u32)]) -> Table {
    let n = t.len();
    let p1 = perm_from_swaps(n, swaps);
    let p: Vec<usize> = (0..n).map(|r| p1[r + 1] - 1).collect();
    let mut fwd = vec![vec![0usize; t.nr_gens]; n];
    for r in 0..n {
        for g in 0..t.nr_gens {
            fwd[p[r]][g] = p[t.fwd[r][g]];
        }
    }
    Table::from_forward(t.nr_gens, fwd).expect("renumbered permutation table")
}

/// overwrite (or create) a crate table object so that it holds `t`
pub fn install_table(obj: &mut CosetTable, t: &Table) {
    for r in 0..t.len() {
        for g in 1..=t.nr_gens as isize {
            obj.set(r, g, t.fwd[r][(g - 1) as usize]);
            obj.set(r, -g, t.bwd[r][(g - 1) as usize]);
        }
    }
}

fn check_tab(c: &TabCase, obs: &mut Obs) -> Result<(), String> {
    let x = &c.ds;
    ensure!(x.is_complete() && x.ops_are_involutions() && x.v_consistent() && x.is_connected() && x.commutes(), "harness: case is not a connected complete D-symbol");
    let px = x.to_partial();
    let fg = fundamental_group(&px);
    let g = fg.nr_generators();
    let rels: Vec<Word> = fg.relators.iter().map(|w| w.iter().map(|&l| l as i64).collect()).collect();
    // pool: the crate's own low-index tables, each re-validated as a transitive action satisfying the relators
    let mut pool: Vec<Table> = vec![];
    for t in coset_tables(g, &fg.relators, c.k).take(60) {
        match crate::props::c11::read_table(&t, g) {
            Ok(own) if own.is_transitive() && own.relators_close(&rels).is_none() => pool.push(own),
            _ => obs.class("a low-index table is not a valid action (left to C12)"),
        }
    }
    if pool.is_empty() || g == 0 {
        obs.class("no table pool");
        obs.nontrivial(false);
        return Ok(());
    }
    let n = x.size;
    let words: BTreeMap<(usize, usize), Word> = fg.edge_to_word.iter().map(|(&k, w)| (k, w.iter().map(|&l| l as i64).collect())).collect();
    let long_word = words.values().any(|w| w.len() >= 2);
    let mut obj: Option<CosetTable> = None;
    let mut reused = false;
    let mut max_sheets = 0;
    for (step, (pick, swaps, reuse, through_clone)) in c.steps.iter().enumerate() {
        let t = renumber_rows(&pool[pick_index(*pick, pool.len())], swaps);
        let keep = *reuse && obj.as_ref().map_or(false, |o| o.len() <= t.len());
        if !keep {
            obj = Some(CosetTable::new(g));
        } else {
            reused = true;
        }
        let o = obj.as_mut().unwrap();
        install_table(o, &t);
        ensure!(o.len() == t.len(), "step {}: a CosetTable filled through set() with {} rows reports len() = {}", step + 1, t.len(), o.len());
        let y = if *through_clone { let cl = o.clone(); DS::from_dsym(&cover_for_table(&px, &cl, &fg.edge_to_word)) } else { DS::from_dsym(&cover_for_table(&px, o, &fg.edge_to_word)) };
        let what = format!("step {}: cover_for_table with a {}-row table{}", step + 1, t.len(), if keep { " (object used before with another table)" } else { "" });
        ensure!(y.size == n * t.len() && y.dim == x.dim, "{}: result has {} chambers, expected {} x {}", what, y.size, t.len(), n);
        for s in 0..t.len() {
            for d in 1..=n {
                for i in 0..=x.dim {
                    let w = words.get(&(d, i)).cloned().unwrap_or_default();
                    let want = t.trace(s, &w) * n + x.op[i][d];
                    let got = y.op[i][s * n + d];
                    ensure!(got == want, "{}: chamber {} on sheet {} is glued across index {} to chamber {}, but the facet's word {:?} leads from row {} to row {} (expected chamber {})", what, d, s, i, got, w, s, t.trace(s, &w), want);
                }
            }
        }
        let k = check_cover(x, &y, &what)?;
        ensure!(k == t.len(), "{}: {} sheets", what, k);
        max_sheets = max_sheets.max(k);
    }
    obs.classify(reused, "a table object reused after being overwritten");
    obs.classify(long_word, "base has a facet word of length >= 2");
    obs.nontrivial(reused && max_sheets >= 2);
    obs.class(&format!("dim {}", x.dim));
    Ok(())
}

pub const SUB_TAB: Sub<TabCase> = Sub {
    name: "cover_for_table",
    rule: "(connected symbol, row bound, history of tables): one CosetTable value is filled through set(), handed to cover_for_table (directly or through a clone), overwritten with another valid transitive table of the fundamental group (rows renumbered at random) and used again; every result must glue chamber d of sheet s across i to the sheet reached by the facet's word in the table the object holds NOW, and be a covering under the documented projection; non-trivial = an object reused with >= 2 sheets",
    check: check_tab,
    panic_discards: &["Reached coset table limit"],
    journal: false,
};

/// Number of covers with <= k sheets if it is at most `limit`: a selection guard for the deep
/// layer (a prefix of the crate's own low-index iterator; nothing is asserted about it here)
fn cover_count_within(x: &DS, k: usize, limit: usize) -> Option<usize> {
    let cp = crate_presentation(x, false).ok()?;
    let rels: Vec<FreeWord> = cp.rels.iter().map(|w| fw(w)).collect();
    let n = guarded(|| rust_dsymbols::fpgroups::cosets::coset_tables(cp.nr_gens, &rels, k).take(limit + 1).count()).ok()?;
    if n <= limit {
        Some(n)
    } else {
        None
    }
}

/// deep layer: (symbol, largest sheet bound <= want with at most `limit` covers)
fn deep_case(x: &DS, want: usize, limit: usize) -> Option<CovCase> {
    let mut k = want;
    while k >= 5 {
        if cover_count_within(x, k, limit).is_some() {
            return Some(CovCase { ds: x.clone(), k, words: vec![], universal: false });
        }
        k -= 1;
    }
    None
}

fn sheet_bound(x: &DS, want: usize) -> usize {
    // (k!)^g <= 5e6 where g = number of facet pairs outside a spanning tree
    let f = frame(x);
    let g = f.free.len() as u32;
    let mut k = 1;
    while k < want {
        let fact: u64 = (1..=(k as u64 + 1)).product();
        if fact.checked_pow(g).map_or(true, |s| s > 5_000_000) {
            break;
        }
        k += 1;
    }
    k
}

pub fn run(ctx: &mut Ctx) {
    let t = ctx.tier;
    ctx.rule = "all branching assignments (v <= 4, capped per D-set) on all connected enumerated D-sets (dim 2 and 3) with the largest sheet bound k <= 4 (5 thorough) for which (k!)^g <= 5e6, all subgroup word sets of length <= 2 on small symbols, the finite universal cover where reference Todd-Coxeter finds a finite group; proptest-generated renumbered symbols with random word sets".into();
    ctx.assume("covers are compared as covers over the base (voltage assignment modulo conjugation of the sheets), not as abstract symbols");
    ctx.assume("'Reached coset table limit' is a documented discard; subgroup words only use existing generator numbers");
    crate::props::run_regressions(ctx, "C05");
    ctx.layer("exhaustive");
    let dsets: Vec<DS> = { let mut v = dsets_up_to(2, t.pick(6, 7)); v.extend(dsets_up_to(3, t.pick(3, 4))); v.extend(dsets_up_to(4, 3)); v.extend(dsets_up_to(5, 2)); v };
    let mut cases: Vec<CovCase> = vec![];
    let mut complete = true;
    for ds in &dsets {
        let (s, all) = assignments(ds, 4, t.pick(32, 128));
        complete &= all;
        for (n, sym) in s.into_iter().enumerate() {
            let k = sheet_bound(&sym, t.pick(4, 5));
            let words: Vec<Word> = match n % 4 {
                0 => vec![vec![1]],
                1 => vec![vec![1, 2]],
                2 => vec![vec![2], vec![1, 1]],
                _ => vec![vec![1, -2], vec![3]],
            };
            cases.push(CovCase { ds: sym.clone(), k, words: words.clone(), universal: false });
            cases.push(CovCase { ds: sym, k: 0, words: vec![], universal: true });
        }
    }
    let note = format!("all branching assignments v <= 4 on all {} connected D-sets (dim 2 size <= {}, dim 3 size <= {}){}", dsets.len(), t.pick(6, 7), t.pick(3, 4), if complete { "" } else { ", capped per D-set" });
    ctx.run_par(&SUB_COV, cases, if complete { Some(&note) } else { None });
    if !complete {
        ctx.note(note);
    }
    // deep sheet bounds on small symbols: every listed cover must be a covering, none listed twice
    ctx.layer("deep-sheet-bounds");
    {
        use rayon::prelude::*;
        let mut cand: Vec<(DS, usize)> = vec![];
        let want2 = [12usize, 12, 10, 9, 8, 6, 6];
        for n in 1..=t.pick(6, 7) {
            for ds in crate::gen::dsets::dsets_of_size(2, n) {
                let vmax = if n <= 2 { 10 } else if n <= 4 { 5 } else { 3 };
                let (syms, _) = assignments(&ds, vmax, t.pick(if n <= 2 { 64 } else { 12 }, 128));
                for sym in syms {
                    cand.push((sym, want2[n - 1]));
                }
            }
        }
        // the triangle and similar groups with degrees the assignment bound does not reach
        for text in ["<1.1:1:1,1,1:3,7>", "<1.1:1:1,1,1:3,8>", "<1.1:1:1,1,1:4,5>", "<1.1:2:2,1 2,2:4,6>", "<1.1:2:2,1 2,2:3,8>", "<1.1:3:1 2 3,1 3,2 3:3 10,3>", "<1.1:3:1 2 3,1 3,2 3:4 8,3>", "<1.1:2:1 2,1 2,2:5 4,3>"] {
            if let Some(x) = DS::parse(text) {
                cand.push((x, 12));
            }
        }
        // degrees across 2^8 (relators with hundreds of letters; small sheet bounds)
        for text in ["<1.1:1:1,1,1:3,256>", "<1.1:1:1,1,1:255,257>", "<1.1:2:2,1 2,2:4,300>", "<1.1:2:1 2,1 2,2:258 4,3>", "<1.1:3:1 2 3,1 3,2 3:3 260,3>", "<1.1:1 3:1,1,1,1:256,3,4>"] {
            if let Some(x) = DS::parse(text) {
                cand.push((x, 6));
            }
        }
        let want3 = [8usize, 8, 6, 6];
        for n in 1..=t.pick(3, 4) {
            for ds in crate::gen::dsets::dsets_of_size(3, n) {
                let (syms, _) = assignments(&ds, 3, t.pick(6, 32));
                for sym in syms {
                    cand.push((sym, want3[n - 1]));
                }
            }
        }
        let limit = t.pick(150, 600);
        let total = cand.len();
        let deep: Vec<CovCase> = cand.into_par_iter().filter_map(|(x, want)| deep_case(&x, want, limit)).collect();
        ctx.note(format!("deep layer: {} of {} candidate symbols have at most {} covers within a sheet bound >= 5", deep.len(), total, limit));
        let n = deep.len();
        ctx.run_par(&SUB_COV, deep, Some(&format!("{} symbols (dim 2 size <= {}, dim 3 size <= {}, small branching) with the largest sheet bound in 5..=12 that yields at most {} covers", n, t.pick(6, 7), t.pick(3, 4), limit)));
    }
    ctx.layer("random");
    let pool = std::sync::Arc::new(dsets);
    let n = t.pick(20_000u32, 200_000u32);
    {
        // table objects with a history
        let pool = pool.clone();
        let sw = || prop::collection::vec((any::<u32>(), any::<u32>()), 0..4);
        ctx.run_prop(
            &SUB_TAB,
            move || (pooled_symbol(pool.clone()), 2usize..=4, prop::collection::vec((any::<u32>(), sw(), prop::bool::weighted(0.8), any::<bool>()), 1..=4)).prop_map(|(ds, k, steps)| TabCase { ds, k, steps }),
            n / 2,
        );
    }
    ctx.run_prop(
        &SUB_COV,
        move || {
            (pooled_symbol(pool.clone()), 0usize..=3, prop::collection::vec(prop::collection::vec((1i64..=6, any::<bool>()).prop_map(|(l, s)| if s { -l } else { l }), 1..=6), 0..=3), any::<bool>()).prop_map(|(ds, k, words, universal)| {
                let k = k.min(sheet_bound(&ds, 3));
                CovCase { ds, k, words, universal: universal && k == 0 }
            })
        },
        n,
    );
}

pub fn replay(ctx: &mut Ctx, sub: &str, case: &Value) -> Option<Result<(), String>> {
    Some(match sub {
        "covers" => ctx.run_one(&SUB_COV, &CovCase::decode(case)?),
        "cover_for_table" => ctx.run_one(&SUB_TAB, &TabCase::decode(case)?),
        _ => return None,
    })
}
