//! C19 — minimum cuts separate source from sink and have minimum size
use crate::ensure;
use crate::runner::*;
use crate::util::*;
use proptest::prelude::*;
use rust_dsymbols::util::cutsets::*;
use serde_json::{json, Value};
use std::collections::{BTreeMap, BTreeSet, VecDeque};

#[derive(Clone, Debug, Hash)]
pub struct CutCase {
    /// 0 = min_edge_cut, 1 = min_edge_cut_undirected, 2 = min_vertex_cut, 3 = min_vertex_cut_undirected
    pub kind: u8,
    pub edges: Vec<(usize, usize)>,
    pub s: usize,
    pub t: usize,
}

const KINDS: [&str; 4] = ["min_edge_cut", "min_edge_cut_undirected", "min_vertex_cut", "min_vertex_cut_undirected"];

impl Case for CutCase {
    fn encode(&self) -> Value {
        json!({"fn": KINDS[self.kind as usize], "edges": self.edges.iter().map(|&(a, b)| json!([a, b])).collect::<Vec<_>>(), "source": self.s, "sink": self.t})
    }
    fn decode(v: &Value) -> Option<Self> {
        let kind = KINDS.iter().position(|k| Some(*k) == v.get("fn").and_then(|x| x.as_str()))? as u8;
        let mut edges = vec![];
        for e in v.get("edges")?.as_array()? {
            let p = dec_usizes(e)?;
            edges.push((*p.first()?, *p.get(1)?));
        }
        Some(CutCase { kind, edges, s: v.get("source")?.as_u64()? as usize, t: v.get("sink")?.as_u64()? as usize })
    }
    fn weight(&self) -> usize {
        self.edges.len()
    }
    fn hash64(&self) -> u64 {
        h64(self)
    }
}

// ---------------------------------------------------------------------------
// oracle: brute force over vertex subsets

struct G {
    verts: Vec<usize>,
    /// adjacency over positions in `verts`
    adj: Vec<Vec<usize>>,
    edges: BTreeSet<(usize, usize)>,
}

fn graph(edges: &BTreeSet<(usize, usize)>, s: usize, t: usize) -> G {
    let mut vs: BTreeSet<usize> = edges.iter().flat_map(|&(a, b)| [a, b]).collect();
    vs.insert(s);
    vs.insert(t);
    let verts: Vec<usize> = vs.into_iter().collect();
    let pos: BTreeMap<usize, usize> = verts.iter().enumerate().map(|(i, &v)| (v, i)).collect();
    let mut adj = vec![vec![]; verts.len()];
    for &(a, b) in edges {
        adj[pos[&a]].push(pos[&b]);
    }
    G { verts, adj, edges: edges.clone() }
}

impl G {
    fn pos(&self, v: usize) -> usize {
        self.verts.iter().position(|&x| x == v).unwrap()
    }
    /// vertices (positions) reachable from s avoiding removed edges / removed vertices
    fn reach(&self, s: usize, removed_edges: &BTreeSet<(usize, usize)>, removed_verts: &BTreeSet<usize>) -> Vec<bool> {
        let mut seen = vec![false; self.verts.len()];
        let mut q = VecDeque::from([s]);
        seen[s] = true;
        while let Some(v) = q.pop_front() {
            for &w in &self.adj[v] {
                if !seen[w] && !removed_verts.contains(&self.verts[w]) && !removed_edges.contains(&(self.verts[v], self.verts[w])) {
                    seen[w] = true;
                    q.push_back(w);
                }
            }
        }
        seen
    }
    /// minimum number of edges leaving a vertex set containing s but not t
    fn min_edge_cut(&self, s: usize, t: usize) -> usize {
        let n = self.verts.len();
        let others: Vec<usize> = (0..n).filter(|&v| v != s && v != t).collect();
        let mut best = usize::MAX;
        for mask in 0u32..(1 << others.len()) {
            let mut inside = vec![false; n];
            inside[s] = true;
            for (k, &v) in others.iter().enumerate() {
                if mask >> k & 1 == 1 {
                    inside[v] = true;
                }
            }
            let c = self.edges.iter().filter(|&&(a, b)| inside[self.pos_fast(a)] && !inside[self.pos_fast(b)]).count();
            best = best.min(c);
        }
        best
    }
    fn pos_fast(&self, v: usize) -> usize {
        self.verts.binary_search(&v).unwrap()
    }
    /// minimum size of a set of vertices other than s, t whose removal disconnects t from s
    fn min_vertex_cut(&self, s: usize, t: usize) -> usize {
        let n = self.verts.len();
        let others: Vec<usize> = (0..n).filter(|&v| v != s && v != t).collect();
        let mut best = usize::MAX;
        let none = BTreeSet::new();
        for mask in 0u32..(1 << others.len()) {
            let sz = mask.count_ones() as usize;
            if sz >= best {
                continue;
            }
            let removed: BTreeSet<usize> = others.iter().enumerate().filter(|(k, _)| mask >> k & 1 == 1).map(|(_, &v)| self.verts[v]).collect();
            if !self.reach(s, &none, &removed)[t] {
                best = sz;
            }
        }
        best
    }
    /// a greedy shortest-augmenting-path flow WITHOUT cancellation; less than the max flow
    /// means that the instance needs a backward residual edge (classification only)
    fn greedy_paths(&self, s: usize, t: usize) -> usize {
        let mut used: BTreeSet<(usize, usize)> = BTreeSet::new();
        let mut k = 0;
        loop {
            let n = self.verts.len();
            let mut back = vec![usize::MAX; n];
            let mut seen = vec![false; n];
            seen[s] = true;
            let mut q = VecDeque::from([s]);
            while let Some(v) = q.pop_front() {
                for &w in &self.adj[v] {
                    if !seen[w] && !used.contains(&(v, w)) {
                        seen[w] = true;
                        back[w] = v;
                        q.push_back(w);
                    }
                }
            }
            if !seen[t] {
                return k;
            }
            let mut w = t;
            while w != s {
                used.insert((back[w], w));
                w = back[w];
            }
            k += 1;
        }
    }
}

impl G {
    /// own max flow (unit capacities, Edmonds-Karp on an explicit residual capacity map); with
    /// `split` every vertex except s and t has capacity 1 (vertex version)
    fn max_flow(&self, s: usize, t: usize, split: bool) -> usize {
        let n = self.verts.len();
        // node ids: in(v) = v, out(v) = v + n when split
        let nn = if split { 2 * n } else { n };
        let mut cap: BTreeMap<(usize, usize), i64> = BTreeMap::new();
        let mut adj: Vec<BTreeSet<usize>> = vec![BTreeSet::new(); nn];
        let add = |a: usize, b: usize, c: i64, cap: &mut BTreeMap<(usize, usize), i64>, adj: &mut Vec<BTreeSet<usize>>| {
            *cap.entry((a, b)).or_insert(0) += c;
            cap.entry((b, a)).or_insert(0);
            adj[a].insert(b);
            adj[b].insert(a);
        };
        if split {
            for v in 0..n {
                let c = if v == s || v == t { 1_000_000 } else { 1 };
                add(v, v + n, c, &mut cap, &mut adj);
            }
        }
        for v in 0..n {
            for &w in &self.adj[v] {
                if v != w {
                    if split {
                        add(v + n, w, 1, &mut cap, &mut adj);
                    } else {
                        add(v, w, 1, &mut cap, &mut adj);
                    }
                }
            }
        }
        let (src, dst) = (s, if split { t } else { t });
        let src = if split { src + n } else { src };
        let mut flow = 0;
        loop {
            let mut back = vec![usize::MAX; nn];
            let mut q = VecDeque::from([src]);
            back[src] = src;
            while let Some(v) = q.pop_front() {
                for &w in &adj[v] {
                    if back[w] == usize::MAX && cap[&(v, w)] > 0 {
                        back[w] = v;
                        q.push_back(w);
                    }
                }
            }
            if back[dst] == usize::MAX {
                return flow;
            }
            let mut w = dst;
            while w != src {
                let v = back[w];
                *cap.get_mut(&(v, w)).unwrap() -= 1;
                *cap.get_mut(&(w, v)).unwrap() += 1;
                w = v;
            }
            flow += 1;
        }
    }
}

/// the case as given, then the same graph with its edge list in one of four other orders (the answer is a
/// property of the graph, not of the order in which its edges are listed)
fn check_cut(c: &CutCase, obs: &mut Obs) -> Result<(), String> {
    check_cut_once(c, obs)?;
    let mut e = c.edges.clone();
    match h64(&(c.kind, &c.edges, c.s)) % 4 {
        0 => e.sort(),
        1 => e.sort_by(|a, b| a.0.cmp(&b.0).then(b.1.cmp(&a.1))),
        2 => e.sort_by(|a, b| b.cmp(a)),
        _ => e.sort_by(|a, b| a.1.cmp(&b.1).then(b.0.cmp(&a.0))),
    }
    if e != c.edges {
        let alt = CutCase { edges: e, ..c.clone() };
        check_cut_once(&alt, &mut Obs::default()).map_err(|m| format!("with the edge list in the order {:?}: {}", alt.edges, m))?;
        obs.class("edge list also in a second order");
    }
    Ok(())
}

fn check_cut_once(c: &CutCase, obs: &mut Obs) -> Result<(), String> {
    ensure!(c.s != c.t, "harness: source == sink");
    let directed: BTreeSet<(usize, usize)> = c.edges.iter().cloned().collect();
    let eff: BTreeSet<(usize, usize)> = if c.kind % 2 == 1 { directed.iter().flat_map(|&(a, b)| [(a, b), (b, a)]).collect() } else { directed.clone() };
    let g = graph(&eff, c.s, c.t);
    let brute = g.verts.len() <= 12;
    ensure!(g.verts.len() <= 400, "harness: graph too large");
    obs.classify(!brute, "large graph (own max-flow oracle instead of subset brute force)");
    let (s, t) = (g.pos(c.s), g.pos(c.t));
    let none_e = BTreeSet::new();
    let none_v = BTreeSet::new();
    obs.classify(!g.reach(s, &none_e, &none_v)[t], "sink unreachable");
    obs.classify(!eff.iter().any(|&(a, b)| a == c.s || b == c.s), "source has no incident edge");
    obs.classify(!eff.iter().any(|&(a, b)| a == c.t || b == c.t), "sink has no incident edge");
    if c.kind < 2 {
        let res = if c.kind == 0 { min_edge_cut(c.edges.iter().cloned(), c.s, c.t) } else { min_edge_cut_undirected(c.edges.iter().cloned(), c.s, c.t) };
        let cut: BTreeSet<(usize, usize)> = res.cut_edges.iter().cloned().collect();
        ensure!(cut.len() == res.cut_edges.len(), "cut_edges {:?} contains a repeated edge", res.cut_edges);
        for e in &cut {
            ensure!(eff.contains(e), "cut edge {:?} is not an edge of the graph", e);
        }
        let after = g.reach(s, &cut, &none_v);
        ensure!(!after[t], "sink still reachable from source after removing the cut {:?}", res.cut_edges);
        let best = if brute { g.min_edge_cut(s, t) } else { g.max_flow(s, t, false) };
        if brute {
            // the two oracles must agree where both apply
            ensure!(g.max_flow(s, t, false) == best, "harness: own max flow {} differs from the subset minimum {}", g.max_flow(s, t, false), best);
        }
        ensure!(cut.len() == best, "cut {:?} has {} edges but a cut with {} edges exists", res.cut_edges, cut.len(), best);
        let mut inside: BTreeSet<usize> = res.inside_vertices.iter().cloned().collect();
        inside.insert(c.s);
        let expect: BTreeSet<usize> = (0..g.verts.len()).filter(|&v| after[v]).map(|v| g.verts[v]).collect();
        ensure!(inside == expect, "inside vertices + source = {:?}, but reachable from the source after removing the cut = {:?}", inside, expect);
        let greedy = g.greedy_paths(s, t);
        obs.nontrivial(best >= 2 || (best >= 1 && greedy < best) || (best >= 1 && expect.len() >= 3));
        obs.classify(best >= 2, "min cut >= 2");
        obs.classify(best >= 3, "min cut >= 3");
        obs.classify(greedy < best, "needs flow cancellation");
    } else {
        if eff.contains(&(c.s, c.t)) {
            obs.discard("precondition: source and sink joined by an edge");
            return Ok(());
        }
        let res = if c.kind == 2 { min_vertex_cut(c.edges.iter().cloned(), c.s, c.t) } else { min_vertex_cut_undirected(c.edges.iter().cloned(), c.s, c.t) };
        let cut: BTreeSet<usize> = res.cut_vertices.iter().cloned().collect();
        ensure!(cut.len() == res.cut_vertices.len(), "cut_vertices {:?} contains a repeated vertex", res.cut_vertices);
        ensure!(!cut.contains(&c.s), "vertex cut {:?} contains the source", res.cut_vertices);
        ensure!(!cut.contains(&c.t), "vertex cut {:?} contains the sink", res.cut_vertices);
        for v in &cut {
            ensure!(g.verts.contains(v), "cut vertex {} is not a vertex of the graph", v);
        }
        let after = g.reach(s, &none_e, &cut);
        ensure!(!after[t], "sink still reachable from source after removing the vertices {:?}", res.cut_vertices);
        let best = if brute { g.min_vertex_cut(s, t) } else { g.max_flow(s, t, true) };
        if brute {
            ensure!(g.max_flow(s, t, true) == best, "harness: own vertex max flow {} differs from the subset minimum {}", g.max_flow(s, t, true), best);
        }
        ensure!(cut.len() == best, "vertex cut {:?} has {} vertices but a cut with {} vertices exists", res.cut_vertices, cut.len(), best);
        let mut inside: BTreeSet<usize> = res.inside_vertices.iter().cloned().collect();
        inside.insert(c.s);
        let expect: BTreeSet<usize> = (0..g.verts.len()).filter(|&v| after[v]).map(|v| g.verts[v]).collect();
        ensure!(inside == expect, "inside vertices + source = {:?}, but reachable from the source after removing the cut vertices = {:?}", inside, expect);
        obs.nontrivial(best >= 2 || (best >= 1 && expect.len() >= 3));
        obs.classify(best >= 2, "min cut >= 2");
    }
    Ok(())
}

pub const SUB_CUT: Sub<CutCase> = Sub {
    name: "cut",
    rule: "(entry point, edge list, source, sink): cut validity, minimality against all vertex subsets, inside-vertex set; non-trivial = minimum cut >= 2, or >= 1 with greedy augmentation failing without flow cancellation or with >= 3 vertices left on the source side",
    check: check_cut,
    panic_discards: &[],
    journal: false,
};

// ---------------------------------------------------------------------------

fn pairs(n: usize) -> Vec<(usize, usize)> {
    let mut v = vec![];
    for a in 0..n {
        for b in 0..n {
            if a != b {
                v.push((a, b));
            }
        }
    }
    v
}

fn random_case() -> impl Strategy<Value = CutCase> {
    (2usize..=9, 0u8..4, 0u8..10).prop_flat_map(|(n, kind, scheme)| {
        let sparse = scheme % 2 == 1;
        (prop::collection::vec((0..n, 0..n), 0..=16), 0..n, 0..n - 1).prop_map(move |(es, s, t0)| {
            let t = if t0 >= s { t0 + 1 } else { t0 };
            // optional sparse relabelling (exercises the vertex-splitting offset)
            // schemes 6..9: labels that straddle 2^31 / 2^32, multiples of 2^32 + 1, one huge label
            let lab = |v: usize| match scheme {
                6 => (1usize << 31) - 4 + [5, 0, 11, 3, 40, 7, 2, 19, 8][v],
                7 => (1usize << 32) - 4 + v,
                8 => v * ((1usize << 32) + 1) + (v % 2) * (1usize << 40),
                9 => if v == n - 1 { 1usize << 61 } else { v },
                _ => if sparse { [5, 0, 11, 3, 40, 7, 2, 19, 8][v] } else { v },
            };
            let es = es.into_iter().filter(|&(a, b)| kind < 2 || !((a, b) == (s, t) || (kind == 3 && (a, b) == (t, s))));
            CutCase { kind, edges: es.map(|(a, b)| (lab(a), lab(b))).collect(), s: lab(s), t: lab(t) }
        })
    })
}

/// layered / grid-like graphs with larger minimum cuts
fn layered_case() -> impl Strategy<Value = CutCase> {
    (0u8..4, 1usize..=3, 1usize..=3, prop::collection::vec(any::<bool>(), 40)).prop_map(|(kind, w, l, bits)| {
        // source 0, sink 1, layers of width w
        let mut edges = vec![];
        let id = |layer: usize, k: usize| 2 + layer * w + k;
        let mut b = bits.into_iter().cycle();
        for k in 0..w {
            edges.push((0, id(0, k)));
            edges.push((id(l - 1, k), 1));
        }
        for layer in 0..l.saturating_sub(1) {
            for a in 0..w {
                for c in 0..w {
                    if a == c || b.next().unwrap() {
                        edges.push((id(layer, a), id(layer + 1, c)));
                    }
                }
            }
        }
        for layer in 0..l {
            for a in 0..w {
                if b.next().unwrap() && a + 1 < w {
                    edges.push((id(layer, a + 1), id(layer, a)));
                }
            }
        }
        CutCase { kind, edges, s: 0, t: 1 }
    })
}

/// larger graphs: random sparse graphs, grids and prisms (skeleton-like: planar, small degree)
fn large_case() -> impl Strategy<Value = CutCase> {
    prop_oneof![
        // random sparse
        (13usize..=40, 0u8..4).prop_flat_map(|(n, kind)| {
            (prop::collection::vec((0..n, 0..n), n..=3 * n), 0..n, 0..n - 1).prop_map(move |(es, s, t0)| {
                let t = if t0 >= s { t0 + 1 } else { t0 };
                let es = es.into_iter().filter(|&(a, b)| a != b && (kind < 2 || !((a, b) == (s, t) || (kind == 3 && (a, b) == (t, s))))).collect();
                CutCase { kind, edges: es, s, t }
            })
        }),
        // w x h grid with some edges removed, source and sink anywhere
        (3usize..=6, 3usize..=6, 0u8..4, prop::collection::vec(any::<bool>(), 80), any::<u32>(), any::<u32>()).prop_map(|(w, h, kind, keep, a, b)| {
            let id = |x: usize, y: usize| y * w + x;
            let mut edges = vec![];
            let mut k = 0;
            for y in 0..h {
                for x in 0..w {
                    if x + 1 < w {
                        if keep[k % 80] || k % 5 != 0 { edges.push((id(x, y), id(x + 1, y))); edges.push((id(x + 1, y), id(x, y))); }
                        k += 1;
                    }
                    if y + 1 < h {
                        if keep[k % 80] || k % 7 != 0 { edges.push((id(x, y), id(x, y + 1))); edges.push((id(x, y + 1), id(x, y))); }
                        k += 1;
                    }
                }
            }
            let n = w * h;
            let s = pick_index(a, n);
            let mut t = pick_index(b, n - 1);
            if t >= s { t += 1; }
            let edges = edges.into_iter().filter(|&e| kind < 2 || !(e == (s, t) || e == (t, s))).collect();
            CutCase { kind, edges, s, t }
        }),
        // prism over a cycle of length n (the skeleton of a prism tile), undirected versions
        (3usize..=12, 2u8..4, any::<u32>(), any::<u32>()).prop_map(|(n, kind, a, b)| {
            let mut edges = vec![];
            for i in 0..n {
                edges.push((i, (i + 1) % n));
                edges.push((n + i, n + (i + 1) % n));
                edges.push((i, n + i));
            }
            let s = pick_index(a, 2 * n);
            let mut t = pick_index(b, 2 * n - 1);
            if t >= s { t += 1; }
            let edges = edges.into_iter().filter(|&(x, y)| !((x, y) == (s, t) || (x, y) == (t, s))).collect();
            CutCase { kind, edges, s, t }
        }),
    ]
}

pub fn run(ctx: &mut Ctx) {
    let t = ctx.tier;
    ctx.rule = "all simple digraphs on n labelled vertices x all ordered (source, sink) pairs x the four entry points (exhaustive), plus proptest-generated graphs with up to 9 vertices / 16 edges (duplicates, loops, sparse labels) and layered networks; oracle = brute force over all vertex subsets; distinct = distinct hashes of (entry point, edge list, source, sink)".into();
    ctx.assume("vertex cuts: pairs joined by an edge source->sink are skipped (stated precondition), counted as discards");
    ctx.assume("vertices without incident edges (isolated source or sink) belong to the graph");
    crate::props::run_regressions(ctx, "C19");

    ctx.layer("exhaustive");
    let nmax = t.pick(4usize, 5usize);
    for n in 2..=nmax {
        let ps = pairs(n);
        let ne = ps.len() as u64;
        let npairs = ps.len() as u64;
        let total = (1u64 << ne) * npairs * 4;
        ctx.run_par_indexed(
            &SUB_CUT,
            total,
            |idx| {
                let kind = (idx % 4) as u8;
                let p = (idx / 4) % npairs;
                let mask = idx / 4 / npairs;
                let edges: Vec<(usize, usize)> = ps.iter().enumerate().filter(|(k, _)| mask >> k & 1 == 1).map(|(_, &e)| e).collect();
                let (s, tt) = ps[p as usize];
                // vertex cuts require that source and sink are not joined by an edge: skip by construction
                if kind >= 2 && (edges.contains(&(s, tt)) || (kind == 3 && edges.contains(&(tt, s)))) {
                    return None;
                }
                Some(CutCase { kind, edges, s, t: tt })
            },
            Some(&format!("all simple digraphs on <= {} labelled vertices x all ordered source/sink pairs x 4 entry points", nmax)),
        );
    }
    ctx.layer("random");
    ctx.run_prop(&SUB_CUT, random_case, t.pick(400_000, 5_000_000));
    ctx.run_prop(&SUB_CUT, layered_case, t.pick(100_000, 1_000_000));
    ctx.layer("random-large");
    ctx.run_prop(&SUB_CUT, large_case, t.pick(30_000, 600_000));
    ctx.layer("random");
    if t == Tier::Quick {
        // the 5-vertex layer is exhaustive in the thorough tier; the quick tier samples it
        ctx.layer("random-5-vertices");
        ctx.run_prop(
            &SUB_CUT,
            || (0u32..(1 << 20), 0usize..20, 0u8..4).prop_map(|(mask, p, kind)| {
                let ps = pairs(5);
                let (s, tt) = ps[p];
                let edges: Vec<(usize, usize)> = ps.iter().enumerate().filter(|(k, _)| mask >> k & 1 == 1).map(|(_, &e)| e)
                    .filter(|&e| kind < 2 || !(e == (s, tt) || (kind == 3 && e == (tt, s)))).collect();
                CutCase { kind, edges, s, t: tt }
            }),
            1_000_000,
        );
    }
}

pub fn replay(ctx: &mut Ctx, sub: &str, case: &Value) -> Option<Result<(), String>> {
    Some(match sub {
        "cut" => ctx.run_one(&SUB_CUT, &CutCase::decode(case)?),
        _ => return None,
    })
}
