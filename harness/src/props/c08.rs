//! C08 — 2D curvature, orbifold symbol and geometry class are mutually consistent
use crate::ensure;
use crate::gen::covers::*;
use crate::gen::dsets::dsets_up_to;
use crate::gen::dsyms::*;
use crate::model::*;
use crate::oracle::orb2::*;
use crate::runner::*;
use crate::util::*;
use num_rational::Rational64 as Q;
use num_traits::{Signed, Zero};
use proptest::prelude::*;
use rust_dsymbols::delaney2d::{curvature as crate_curvature, is_euclidean, is_hyperbolic, is_spherical, orbifold_symbol};
use rust_dsymbols::derived::dual;
use serde_json::{json, Value};

#[derive(Clone, Debug, Hash)]
pub struct OrbCase {
    pub ds: DS,
    pub swaps: Vec<(u32, u32)>,
    pub sheets: usize,
    pub pick: u32,
}

impl Case for OrbCase {
    fn encode(&self) -> Value {
        json!({"symbol": self.ds.encode(), "swaps": self.swaps.iter().map(|s| json!([s.0, s.1])).collect::<Vec<_>>(), "sheets": self.sheets, "pick": self.pick})
    }
    fn decode(v: &Value) -> Option<Self> {
        Some(OrbCase {
            ds: DS::decode(v.get("symbol")?)?,
            swaps: v.get("swaps")?.as_array()?.iter().filter_map(|p| Some((p.get(0)?.as_u64()? as u32, p.get(1)?.as_u64()? as u32))).collect(),
            sheets: v.get("sheets")?.as_u64()? as usize,
            pick: v.get("pick")?.as_u64()? as u32,
        })
    }
    fn weight(&self) -> usize {
        self.ds.size
    }
    fn hash64(&self) -> u64 {
        h64(self)
    }
}

struct Facts {
    k: Q,
    orb: Orb,
    text: String,
}

/// all statements about one symbol in one representation
fn facts(x: &DS, simple: bool) -> Result<Facts, String> {
    let own_k = curvature(x);
    let own_orb = invariants(x)?;
    let (k, text, eu, hy, sp) = if simple {
        let s = x.to_simple();
        (crate_curvature(&s), orbifold_symbol(&s), is_euclidean(&s), is_hyperbolic(&s), is_spherical(&s))
    } else {
        let s = x.to_partial();
        (crate_curvature(&s), orbifold_symbol(&s), is_euclidean(&s), is_hyperbolic(&s), is_spherical(&s))
    };
    let name = if simple { "SimpleDSym" } else { "PartialDSym" };
    ensure!(k == own_k, "{}: curvature({}) = {}, sum over chambers of 1/m01 + 1/m12 - 1/2 = {}", name, x.text(), k, own_k);
    let orb = parse_conway(&text).ok_or_else(|| format!("{}: orbifold_symbol({}) = {:?} is not a Conway symbol", name, x.text(), text))?;
    ensure!(k == orb.euler() * Q::from(2), "{}: curvature {} of {} is not twice the Euler characteristic {} of its orbifold symbol {:?}", name, k, x.text(), orb.euler(), text);
    ensure!(orb == own_orb, "{}: orbifold_symbol({}) = {:?}, i.e. {:?}; own boundary / cone / genus computation gives {:?}", name, x.text(), text, orb, own_orb);
    ensure!(eu == k.is_zero(), "{}: is_euclidean({}) = {} with curvature {}", name, x.text(), eu, k);
    ensure!(hy == k.is_negative(), "{}: is_hyperbolic({}) = {} with curvature {}", name, x.text(), hy, k);
    let want_sp = k.is_positive() && !own_orb.is_bad();
    ensure!(sp == want_sp, "{}: is_spherical({}) = {} with curvature {} and orbifold {:?}", name, x.text(), sp, k, text);
    ensure!([eu, hy, sp].iter().filter(|&&b| b).count() == if k.is_positive() && own_orb.is_bad() { 0 } else { 1 }, "{}: geometry predicates of {} are not exclusive", name, x.text());
    Ok(Facts { k, orb, text })
}

fn check_orb(c: &OrbCase, obs: &mut Obs) -> Result<(), String> {
    let x = &c.ds;
    ensure!(x.dim == 2 && x.is_complete() && x.ops_are_involutions() && x.v_consistent() && x.is_connected() && x.commutes(), "harness: case is not a connected complete 2D symbol");
    let f = facts(x, false)?;
    let fs = facts(x, true)?;
    ensure!(fs.text == f.text, "orbifold symbol differs between representations: {:?} vs {:?}", f.text, fs.text);
    // renumbering
    let y = x.renumbered(&perm_from_swaps(x.size, &c.swaps));
    let fy = facts(&y, c.swaps.len() % 2 == 0)?;
    ensure!(fy.k == f.k && fy.orb == f.orb, "renumbering {} to {} changes curvature / orbifold: {} {:?} vs {} {:?}", x.text(), y.text(), f.k, f.text, fy.k, fy.text);
    // dual (own construction and the crate's)
    let fd = facts(&x.dual(), false)?;
    ensure!(fd.k == f.k && fd.orb == f.orb, "dualisation changes curvature / orbifold of {}: {} {:?} vs {} {:?}", x.text(), f.k, f.text, fd.k, fd.text);
    let cd = DS::from_dsym(&dual(&x.to_partial()));
    ensure!(cd == x.dual(), "dual({}) = {}, expected {}", x.text(), cd.text(), x.dual().text());
    // covers
    if c.sheets >= 2 {
        let fr = frame(x);
        match cover_classes(x, &fr, c.sheets, 200_000) {
            None => obs.class("cover search over budget"),
            Some(cl) if cl.is_empty() => obs.class("no connected cover with that many sheets"),
            Some(cl) => {
                let yc = cover_from_voltages(x, &fr, &cl[pick_index(c.pick, cl.len())].1, c.sheets);
                let fc = facts(&yc, false)?;
                ensure!(fc.k == f.k * Q::from(c.sheets as i64), "{}-sheeted cover {} of {} has curvature {}, base {}", c.sheets, yc.text(), x.text(), fc.k, f.k);
                obs.class("cover checked");
            }
        }
    }
    let mirror = (0..=2).any(|i| (1..=x.size).any(|d| x.op[i][d] == d));
    obs.nontrivial(x.size >= 2 && (mirror || !f.orb.cones.is_empty()));
    obs.classify(mirror, "has a mirror");
    obs.classify(!f.orb.cones.is_empty(), "has a cone");
    obs.classify(f.orb.boundaries.len() >= 2, ">= 2 boundary components");
    obs.classify(f.orb.boundaries.iter().any(|b| b.len() >= 3 && { let mut s = b.clone(); s.sort(); s.dedup(); s.len() >= 3 }), "boundary with >= 3 different corners (reversal matters)");
    obs.classify(f.orb.crosscaps > 0, "non-orientable");
    obs.classify(f.orb.handles > 0, "has a handle");
    obs.classify(f.k.is_positive() && f.orb.is_bad(), "bad orbifold");
    obs.classify(f.k.is_zero(), "euclidean");
    obs.classify(f.k.is_positive(), "positive curvature");
    obs.classify(f.k.is_negative(), "hyperbolic");
    Ok(())
}

pub const SUB_ORB: Sub<OrbCase> = Sub {
    name: "orbifold",
    rule: "(connected complete 2D symbol, renumbering, sheet number): crate curvature = own per-chamber sum = 2 * Euler characteristic of the parsed orbifold symbol; parsed symbol = own cones / boundary cycles (mod rotation and reversal) / genus; invariant under renumbering and dual; multiplied by the sheet number on a harness-built cover; geometry predicates match the sign and the tear-drop / spindle rule; in PartialDSym and SimpleDSym; non-trivial = size >= 2 with a mirror or a cone",
    check: check_orb,
    panic_discards: &[],
    journal: false,
};

pub fn run(ctx: &mut Ctx) {
    let t = ctx.tier;
    ctx.rule = "all branching assignments v <= 8 (capped per D-set, deterministic spread) on all connected 2D D-sets of the brute-force enumeration up to a size bound, with a fixed renumbering, the dual and harness-built 2-/3-sheeted covers; proptest-generated renumbered symbols with branching up to 100 and random 2D symbols up to 60 chambers".into();
    ctx.assume("connected symbols only (every 2D routine of the crate assumes it); no m >= 3 restriction");
    ctx.assume("orbifold symbols are compared modulo rotation and reversal of each boundary component's corner sequence");
    crate::props::run_regressions(ctx, "C08");

    ctx.layer("exhaustive");
    let dsets: Vec<DS> = dsets_up_to(2, t.pick(6, 8));
    let mut cases = vec![];
    let mut complete = true;
    for ds in &dsets {
        let (syms, all) = assignments(ds, 8, t.pick(256, 4096));
        complete &= all;
        for (k, s) in syms.into_iter().enumerate() {
            let n = s.size as u32;
            let unit = |i: u32| ((i as u64 * (1u64 << 32)) / n.max(1) as u64) as u32;
            let swaps = (0..n / 2).map(|i| (unit(i), unit(n - 1 - i))).collect();
            cases.push(OrbCase { sheets: if s.size <= 4 { 2 + k % 2 } else { 0 }, ds: s, swaps, pick: (k as u32).wrapping_mul(2654435761) });
        }
    }
    let note = format!("all branching assignments v <= 8 on all {} connected 2D D-sets of size <= {}{}", dsets.len(), t.pick(6, 8), if complete { "" } else { " (capped per D-set)" });
    ctx.run_par(&SUB_ORB, cases, if complete { Some(&note) } else { None });
    if !complete {
        ctx.note(note);
    }

    // larger D-sets from the crate's own D-set generator (any valid D-set is a legitimate input; each is
    // re-validated by the table model), with the trivial and one pseudo-random branching assignment
    ctx.layer("generator-dsets");
    {
        let lo = t.pick(6usize, 8usize);
        let hi = t.pick(12usize, 13usize);
        let mut more: Vec<OrbCase> = vec![];
        for (k, s) in rust_dsymbols::generators::dset_generators::DSets::new(2, hi).enumerate() {
            let ds = DS::from_dset(&s).dset();
            if ds.size <= lo || !ds.ops_are_involutions() || !ds.is_connected() {
                continue;
            }
            let reps = crate::gen::dsyms::orbit_reps(&ds);
            let mut h = (k as u64 + 1).wrapping_mul(0x9e37_79b9_7f4a_7c15);
            let vs: Vec<usize> = reps.iter().map(|_| { h ^= h >> 29; h = h.wrapping_mul(0xbf58_476d_1ce4_e5b9); h ^= h >> 32; 1 + (h % 4) as usize }).collect();
            let n = ds.size as u32;
            let unit = |i: u32| ((i as u64 * (1u64 << 32)) / n.max(1) as u64) as u32;
            let swaps: Vec<(u32, u32)> = (0..n / 2).map(|i| (unit(i), unit(n - 1 - i))).collect();
            more.push(OrbCase { ds: crate::gen::dsyms::assign(&ds, &reps, &vs), swaps: swaps.clone(), sheets: 0, pick: k as u32 });
            more.push(OrbCase { ds, swaps, sheets: 0, pick: k as u32 });
        }
        let nm = more.len();
        ctx.run_par(&SUB_ORB, more, Some(&format!("{} symbols: every D-set with {}..={} chambers listed by the crate's D-set generator with all v = 1 and with one pseudo-random assignment v <= 4", nm, lo + 1, hi)));
    }
    // answers must not depend on what was asked before (scratch state shared between calls)
    ctx.layer("call-history");
    {
        let texts = [("<1.1:6:2 4 6,6 3 5,1 2 3 4 5 6:3,4 6 4>", "<1.1:1:1,1,1:4,4>"), ("<1.1:8:2 4 6 8,8 3 5 7,1 2 3 4 5 6 7 8:4,4 6 8 4>", "<1.1:2:2,1 2,2:4,4>"), ("<1.1:3:1 2 3,1 3,2 3:4 8,3>", "<1.1:1:1,1,1:3,6>"), ("<1.1:12:2 4 6 8 10 12,12 3 5 7 9 11,1 2 3 4 5 6 7 8 9 10 11 12:6,4 4 4 4 4 4>", "<1.1:3:1 2 3,1 3,2 3:3 6,4>")];
        let mut cases: Vec<StressCase> = texts.iter().filter_map(|(b, s)| Some(StressCase { big: DS::parse(b)?, small: DS::parse(s)? })).filter(|c| c.big.is_complete() && c.big.is_connected() && c.small.is_complete() && c.small.is_connected()).collect();
        if t == Tier::Thorough {
            let extra: Vec<StressCase> = dsets.iter().filter(|d| d.size >= 4).take(12).map(|d| StressCase { big: assign(d, &orbit_reps(d), &vec![3; orbit_reps(d).len()]), small: DS::parse("<1.1:1:1,1,1:3,6>").unwrap() }).collect();
            cases.extend(extra);
        }
        ctx.run_par(&SUB_STRESS, cases, None);
    }
    ctx.layer("random");
    let n = t.pick(40_000u32, 2_000_000u32);
    let sw = || prop::collection::vec((any::<u32>(), any::<u32>()), 0..8);
    let pool = std::sync::Arc::new(dsets_up_to(2, t.pick(7, 10)));
    {
        let pool = pool.clone();
        ctx.run_prop(&SUB_ORB, move || (pooled_symbol(pool.clone()), sw(), 0usize..=3, any::<u32>()).prop_map(|(ds, swaps, k, pick)| OrbCase { sheets: if ds.size <= 5 && k >= 2 { k } else { 0 }, ds, swaps, pick }), n);
    }
    ctx.run_prop(&SUB_ORB, || (random_symbol(2, 8..=60), sw()).prop_map(|(ds, swaps)| OrbCase { ds, swaps, sheets: 0, pick: 0 }), n / 4);
    // large branching numbers: values around 2^8, 2^10, 2^12, 2^16, around 420 and 840 (the generator's
    // curvature scale) and up to 10^5; at most two different values above 100 per symbol, so that the
    // exact i64 rationals of both the crate and the oracle cannot overflow
    {
        const BIG: [usize; 30] = [101, 127, 128, 129, 255, 256, 257, 419, 420, 421, 422, 511, 512, 839, 840, 841, 1000, 1023, 1024, 1025, 2520, 4095, 4096, 4097, 9973, 65535, 65536, 65537, 99991, 100003];
        let pool = std::sync::Arc::new(dsets_up_to(2, 6));
        ctx.run_prop(
            &SUB_ORB,
            move || {
                (pooled_symbol(pool.clone()), prop::collection::vec(0u8..8, 12), any::<u32>(), any::<u32>(), sw(), 0usize..=2).prop_map(|(x, which, a, b, swaps, k)| {
                    let big = [BIG[pick_index(a, BIG.len())], BIG[pick_index(b, BIG.len())]];
                    let reps = crate::gen::dsyms::orbit_reps(&x);
                    let vs: Vec<usize> = reps.iter().enumerate().map(|(j, &(i, d))| match which[j % which.len()] { 0 | 1 => big[0], 2 => big[1], 3 => 1, 4 => 2, _ => x.v[i][d] }).collect();
                    let ds = crate::gen::dsyms::assign(&x.dset(), &reps, &vs);
                    OrbCase { sheets: if ds.size <= 3 && k == 2 { 2 } else { 0 }, ds, swaps, pick: a ^ b }
                })
            },
            n / 2,
        );
    }
}

/// (larger symbol, smaller symbol): the crate's answers for the larger one before and after runs of calls
/// on the smaller one
#[derive(Clone, Debug, Hash)]
pub struct StressCase {
    pub big: DS,
    pub small: DS,
}

impl Case for StressCase {
    fn encode(&self) -> Value {
        json!({"big": self.big.encode(), "small": self.small.encode()})
    }
    fn decode(v: &Value) -> Option<Self> {
        Some(StressCase { big: DS::decode(v.get("big")?)?, small: DS::decode(v.get("small")?)? })
    }
    fn weight(&self) -> usize {
        self.big.size + self.small.size
    }
    fn hash64(&self) -> u64 {
        h64(self)
    }
}

fn check_stress(c: &StressCase, obs: &mut Obs) -> Result<(), String> {
    let (b, s) = (c.big.to_partial(), c.small.to_partial());
    let own = facts(&c.big, false)?;
    let big = || (crate_curvature(&b), orbifold_symbol(&b), is_euclidean(&b), is_hyperbolic(&b), is_spherical(&b));
    let first = big();
    ensure!(first.0 == own.k, "harness: curvature of the larger symbol");
    let calls = wrap_stress(big, || { let _ = crate_curvature(&s); }, &format!("curvature / orbifold symbol / geometry class of {} with curvature calls on {} in between", c.big.text(), c.small.text()))?;
    let calls2 = wrap_stress(big, || { let _ = orbifold_symbol(&s); }, &format!("curvature / orbifold symbol / geometry class of {} with orbifold_symbol calls on {} in between", c.big.text(), c.small.text()))?;
    obs.nontrivial(c.big.size > c.small.size);
    obs.class(&format!("{} calls on the smaller symbol", calls + calls2));
    Ok(())
}

pub const SUB_STRESS: Sub<StressCase> = Sub {
    name: "call_history",
    rule: "(larger symbol B, smaller symbol S): curvature, orbifold symbol and the three geometry predicates of B are evaluated, then n calls on S, then B again, for n in windows around 2^8 / p and 2^16 / p (p = 1..6); the answers for B never change (and the curvature is the own exact value); non-trivial = B has more chambers than S",
    check: check_stress,
    panic_discards: &[],
    journal: false,
};

pub fn replay(ctx: &mut Ctx, sub: &str, case: &Value) -> Option<Result<(), String>> {
    Some(match sub {
        "orbifold" => ctx.run_one(&SUB_ORB, &OrbCase::decode(case)?),
        "call_history" => ctx.run_one(&SUB_STRESS, &StressCase::decode(case)?),
        _ => return None,
    })
}
