//! C01 — D-symbol text form round-trips and parsing never panics
use crate::ensure;
use crate::gen::dsets::dsets_up_to;
use crate::gen::dsyms::*;
use crate::model::*;
use crate::runner::*;
use crate::util::*;
use proptest::prelude::*;
use rust_dsymbols::dsets::SimpleDSet;
use rust_dsymbols::dsyms::{DSym, PartialDSym, SimpleDSym};
use rust_dsymbols::parse_dsym::parse_dsymbol;
use serde_json::{json, Value};
use std::sync::Arc;

// ---------------------------------------------------------------------------
// (a) round trip of symbols

#[derive(Clone, Debug, Hash)]
pub struct SymCase {
    pub ds: DS,
    /// 0 = PartialDSym, 1 = SimpleDSym
    pub repr: u8,
    pub counters: (usize, usize),
}

impl Case for SymCase {
    fn encode(&self) -> Value {
        json!({"symbol": self.ds.encode(), "repr": (["PartialDSym", "SimpleDSym", "PartialDSym::from_fields (orbits numbered in reverse)", "SimpleDSym of PartialDSym::from_fields (orbits numbered in reverse)"][self.repr as usize % 4]), "counters": [self.counters.0, self.counters.1]})
    }
    fn decode(v: &Value) -> Option<Self> {
        let repr = match v.get("repr")?.as_str()? {
            "PartialDSym" => 0,
            "SimpleDSym" => 1,
            "PartialDSym::from_fields (orbits numbered in reverse)" => 2,
            "SimpleDSym of PartialDSym::from_fields (orbits numbered in reverse)" => 3,
            _ => return None,
        };
        let c = dec_usizes(v.get("counters")?)?;
        Some(SymCase { ds: DS::decode(v.get("symbol")?)?, repr, counters: (*c.first()?, *c.get(1)?) })
    }
    fn weight(&self) -> usize {
        self.ds.size
    }
    fn hash64(&self) -> u64 {
        h64(self)
    }
}

/// semantic validity of a parsed symbol, judged on the harness model
fn validate_parsed<T: DSym>(sym: &T) -> Result<DS, String> {
    let ds = DS::from_dsym(sym);
    ensure!(ds.size >= 1 && ds.dim >= 1, "parsed symbol has size {} dim {}", ds.size, ds.dim);
    ensure!(ds.ops_are_involutions(), "parsed symbol has an operation that is not an involution on 1..size: {:?}", ds.op);
    for i in 0..ds.dim {
        for d in 1..=ds.size {
            let r = ds.r(i, i + 1, d);
            let m = sym.m(i, i + 1, d).ok_or_else(|| format!("m({},{},{}) undefined on a parsed symbol", i, i + 1, d))?;
            ensure!(m % r == 0, "parsed symbol has degree m({},{},{}) = {} which is not a multiple of the orbit length {}", i, i + 1, d, m, r);
            ensure!(m == r * ds.v[i][d], "parsed symbol: m({},{},{}) = {} but r * v = {} * {}", i, i + 1, d, m, r, ds.v[i][d]);
        }
    }
    ensure!(ds.v_consistent(), "parsed symbol has a branching number that is not constant on its orbit");
    Ok(ds)
}

fn roundtrip(c: &SymCase, obs: &mut Obs) -> Result<(), String> {
    let ds = &c.ds;
    ensure!(ds.is_complete() && ds.ops_are_involutions() && ds.v_consistent(), "harness: case is not a complete D-symbol");
    let text = match c.repr {
        0 => {
            // PartialDSym carries the set counter of its D-set, symbol counter 1
            let set = SimpleDSet::from_partial(ds.to_partial_dset(), c.counters.0);
            let mut sym = PartialDSym::from(set);
            for i in 0..ds.dim {
                for d in 1..=ds.size {
                    sym.set_v(i, d, ds.v[i][d]);
                }
            }
            format!("{}", sym)
        }
        2 => format!("{}", ds.to_partial_from_fields_reversed(c.counters.0)),
        3 => format!("{}", SimpleDSym::from_partial(ds.to_partial_from_fields_reversed(c.counters.0), c.counters.1)),
        _ => {
            let set = SimpleDSet::from_partial(ds.to_partial_dset(), c.counters.0);
            let mut sym = PartialDSym::from(set);
            for i in 0..ds.dim {
                for d in 1..=ds.size {
                    sym.set_v(i, d, ds.v[i][d]);
                }
            }
            format!("{}", SimpleDSym::from_partial(sym, c.counters.1))
        }
    };
    let parsed: PartialDSym = text.parse().map_err(|e| format!("printed text {:?} does not parse: {}", text, e))?;
    let back = validate_parsed(&parsed)?;
    ensure!(&back == ds, "print then parse changed the symbol: printed {:?}, parsed back as {}", text, back.text());
    // printing the parsed symbol gives text that parses to the same symbol again
    let text2 = format!("{}", parsed);
    let parsed2: PartialDSym = text2.parse().map_err(|e| format!("text {:?} printed from a parsed symbol does not parse: {}", text2, e))?;
    ensure!(DS::from_dsym(&parsed2) == back, "second round trip changed the symbol: {:?}", text2);
    // the same through SimpleDSym
    let text3 = format!("{}", SimpleDSym::from(parsed2));
    let parsed3: PartialDSym = text3.parse().map_err(|e| format!("text {:?} does not parse: {}", text3, e))?;
    ensure!(DS::from_dsym(&parsed3) == back, "round trip through SimpleDSym changed the symbol: {:?}", text3);
    // differential: the harness's own reader of the documented format, when it can read the text
    match DS::parse(&text) {
        Some(own) => ensure!(&own == ds, "harness reader understands {:?} as {}", text, own.text()),
        None => obs.class("own reader could not read the printed text"),
    }
    obs.nontrivial(ds.size >= 2);
    obs.classify(ds.size >= 10, "multi-digit chamber numbers");
    obs.classify(ds.size >= 100, ">= 100 chambers");
    obs.classify(c.counters != (1, 1), "counters != 1.1");
    obs.class(&format!("dim {}", ds.dim));
    obs.classify(!ds.is_connected(), "disconnected");
    Ok(())
}

pub const SUB_ROUNDTRIP: Sub<SymCase> = Sub {
    name: "roundtrip",
    rule: "(complete D-symbol, representation, counters): parse(print(x)) has the same dim, size, operations and branching numbers as x, print(parse(..)) parses to the same symbol again, also through SimpleDSym; non-trivial = size >= 2",
    check: roundtrip,
    panic_discards: &[],
    journal: false,
};

// ---------------------------------------------------------------------------
// (b) totality on arbitrary strings

#[derive(Clone, Debug, Hash)]
pub struct TextCase {
    pub text: String,
    /// "grammar" | "mutation" | "soup" | "dset" | "valid"
    pub kind: String,
}

impl Case for TextCase {
    fn encode(&self) -> Value {
        json!({"text": self.text, "kind": self.kind})
    }
    fn decode(v: &Value) -> Option<Self> {
        Some(TextCase { text: v.get("text")?.as_str()?.to_string(), kind: v.get("kind").and_then(|k| k.as_str()).unwrap_or("soup").to_string() })
    }
    fn weight(&self) -> usize {
        self.text.len()
    }
    fn hash64(&self) -> u64 {
        h64(&self.text)
    }
}

fn parse_total(c: &TextCase, obs: &mut Obs) -> Result<(), String> {
    let tokenizes = parse_dsymbol(&c.text).is_ok();
    obs.nontrivial(tokenizes || c.kind == "mutation");
    obs.classify(tokenizes, "passes the tokenizer");
    obs.class(&format!("kind {}", c.kind));
    match c.text.parse::<PartialDSym>() {
        Err(e) => {
            obs.class("Err");
            // only texts the harness built to be valid (own printer, [ \t\r\n] whitespace) must be accepted;
            // for anything else Err is always an acceptable answer
            ensure!(c.kind != "valid", "a valid text was rejected: {:?}: {}", c.text, e);
        }
        Ok(sym) => {
            obs.class("Ok");
            let ds = validate_parsed(&sym)?;
            let printed = format!("{}", sym);
            let again: PartialDSym = printed.parse().map_err(|e| format!("parsed {:?}, printed it as {:?}, which does not parse: {}", c.text, printed, e))?;
            let ds2 = DS::from_dsym(&again);
            ensure!(ds2 == ds, "parsed {:?}, printed it as {:?}, which parses to a different symbol {}", c.text, printed, ds2.text());
            obs.classify(!ds.is_complete(), "Ok with an undefined degree");
            // faithfulness: an accepted text denotes the symbol whose lists it contains
            if let Some((size, dim, ops, ms)) = DS::parse_spec(&c.text) {
                ensure!(size == ds.size && dim == ds.dim, "text {:?} declares size {} dim {}, result has size {} dim {}", c.text, size, dim, ds.size, ds.dim);
                for i in 0..=ds.dim.min(ops.len().saturating_sub(1)) {
                    let images: Vec<usize> = (1..=ds.size).filter(|&d| ds.op[i][d] >= d).map(|d| ds.op[i][d]).collect();
                    ensure!(images == ops[i], "text {:?}: operation {} is written as {:?} but the result has images {:?} (in first-unassigned-chamber order)", c.text, i, ops[i], images);
                }
                for i in 0..ds.dim.min(ms.len()) {
                    let degs: Vec<usize> = ds.components(&[i, i + 1]).iter().map(|o| ds.m(i, o[0])).collect();
                    ensure!(degs == ms[i], "text {:?}: degrees for index pair ({},{}) are written as {:?} but the result has {:?} (one per orbit)", c.text, i, i + 1, ms[i], degs);
                }
                obs.class("Ok, faithfulness checked against the text's own lists");
            }
        }
    }
    Ok(())
}

pub const SUB_PARSE: Sub<TextCase> = Sub {
    name: "parse_total",
    rule: "arbitrary string: from_str returns (no panic, no abort); Ok(s) => operations are involutions on 1..size, every degree is a multiple of its orbit length, and print(s) parses to s again; non-trivial = the text passes the tokenizer or is one mutation away from a valid text",
    check: parse_total,
    panic_discards: &[],
    journal: true,
};

// ---------------------------------------------------------------------------
// generators

fn number_soup() -> impl Strategy<Value = String> {
    prop_oneof![
        6 => (0usize..12).prop_map(|x| x.to_string()),
        1 => Just("9223372036854775807".to_string()),
        1 => Just("9223372036854775808".to_string()),
        1 => Just("18446744073709551615".to_string()),
        1 => Just("18446744073709551616".to_string()),
        1 => Just("4000000000000000000".to_string()),
        1 => Just("99999999999999999999999".to_string()),
        1 => Just("0000000000000000000001".to_string()),
        1 => (0usize..2000).prop_map(|x| x.to_string()),
    ]
}

fn ws() -> impl Strategy<Value = String> {
    prop_oneof![5 => Just("".to_string()), 3 => Just(" ".to_string()), 1 => Just("\n".to_string()), 1 => Just("\t".to_string()), 1 => Just("  \r\n ".to_string())]
}

fn ws1() -> impl Strategy<Value = String> {
    prop_oneof![6 => Just(" ".to_string()), 1 => Just("\n".to_string()), 1 => Just("\t".to_string()), 1 => Just("  ".to_string())]
}

/// tokens of a text: numbers and punctuation, whitespace dropped
fn tokenize(text: &str) -> Vec<String> {
    let mut out = vec![];
    let mut cur = String::new();
    for ch in text.chars() {
        if ch.is_ascii_digit() {
            cur.push(ch);
        } else {
            if !cur.is_empty() {
                out.push(std::mem::take(&mut cur));
            }
            if !ch.is_whitespace() {
                out.push(ch.to_string());
            }
        }
    }
    if !cur.is_empty() {
        out.push(cur);
    }
    out
}

/// join tokens, putting whitespace between adjacent numbers (and optionally elsewhere)
fn join(tokens: &[String], gaps: &[String], gaps1: &[String]) -> String {
    let mut s = String::new();
    for (k, t) in tokens.iter().enumerate() {
        if k > 0 {
            let prev_num = tokens[k - 1].chars().all(|c| c.is_ascii_digit());
            let this_num = t.chars().all(|c| c.is_ascii_digit());
            // never insert whitespace next to the '.' of the counters (the grammar forbids it)
            let dot = tokens[k - 1] == "." || t == ".";
            if prev_num && this_num {
                s += &gaps1[k % gaps1.len()];
            } else if !dot {
                s += &gaps[k % gaps.len()];
            }
        }
        s += t;
    }
    s
}

#[derive(Clone, Debug)]
enum Mutation {
    Drop(u32),
    Dup(u32),
    Swap(u32),
    Replace(u32, String),
    Truncate(u32),
    Insert(u32, String),
}

fn mutation() -> impl Strategy<Value = Mutation> {
    prop_oneof![
        any::<u32>().prop_map(Mutation::Drop),
        any::<u32>().prop_map(Mutation::Dup),
        any::<u32>().prop_map(Mutation::Swap),
        (any::<u32>(), number_soup()).prop_map(|(k, n)| Mutation::Replace(k, n)),
        any::<u32>().prop_map(Mutation::Truncate),
        (any::<u32>(), prop_oneof![number_soup(), Just(",".to_string()), Just(":".to_string()), Just(".".to_string()), Just("<".to_string()), Just(">".to_string())]).prop_map(|(k, t)| Mutation::Insert(k, t)),
    ]
}

fn apply(tokens: &mut Vec<String>, m: &Mutation) {
    if tokens.is_empty() {
        return;
    }
    let n = tokens.len();
    match m {
        Mutation::Drop(k) => {
            tokens.remove(pick_index(*k, n));
        }
        Mutation::Dup(k) => {
            let i = pick_index(*k, n);
            let t = tokens[i].clone();
            tokens.insert(i, t);
        }
        Mutation::Swap(k) => {
            if n >= 2 {
                let i = pick_index(*k, n - 1);
                tokens.swap(i, i + 1);
            }
        }
        Mutation::Replace(k, s) => {
            // replace a number token by another number
            let nums: Vec<usize> = (0..n).filter(|&i| tokens[i].chars().all(|c| c.is_ascii_digit())).collect();
            if !nums.is_empty() {
                tokens[nums[pick_index(*k, nums.len())]] = s.clone();
            }
        }
        Mutation::Truncate(k) => {
            tokens.truncate(pick_index(*k, n));
        }
        Mutation::Insert(k, s) => {
            tokens.insert(pick_index(*k, n + 1), s.clone());
        }
    }
}

fn mutated_text(pool: Arc<Vec<DS>>) -> impl Strategy<Value = TextCase> {
    let sym = prop_oneof![3 => pooled_symbol(pool).boxed(), 1 => random_symbol_any(2, 6..=30).boxed(), 1 => random_symbol_any(3, 6..=30).boxed()];
    (sym, prop::collection::vec(mutation(), 1..=3), prop::collection::vec(ws(), 5), prop::collection::vec(ws1(), 3)).prop_map(|(ds, muts, gaps, gaps1)| {
        let mut tokens = tokenize(&ds.text());
        for m in &muts {
            apply(&mut tokens, m);
        }
        TextCase { text: join(&tokens, &gaps, &gaps1), kind: "mutation".into() }
    })
}

fn valid_text(pool: Arc<Vec<DS>>) -> impl Strategy<Value = TextCase> {
    (pooled_symbol(pool), prop::collection::vec(ws(), 5), prop::collection::vec(ws1(), 3), 1usize..50, 1usize..50, any::<bool>()).prop_map(|(ds, gaps, gaps1, a, b, explicit_dim)| {
        let mut tokens = tokenize(&ds.text_with_counts(a, b));
        if explicit_dim && ds.dim == 2 {
            // "<a.b:size 2:..." is the same as "<a.b:size:..."
            let pos = tokens.iter().position(|t| t == ":").unwrap();
            tokens.insert(pos + 2, "2".to_string());
        }
        TextCase { text: join(&tokens, &gaps, &gaps1), kind: "valid".into() }
    })
}

fn dset_text(pool: Arc<Vec<DS>>) -> impl Strategy<Value = TextCase> {
    (any::<u32>(), any::<bool>()).prop_map(move |(k, simple)| {
        let ds = &pool[pick_index(k, pool.len())];
        let text = if simple { format!("{}", ds.to_simple_dset()) } else { format!("{}", ds.to_partial_dset()) };
        TextCase { text, kind: "dset".into() }
    })
}

/// random spec in the grammar: counts, size [dim], op lists, degree lists with arbitrary small numbers
fn grammar_text() -> impl Strategy<Value = TextCase> {
    let small = |hi: usize| prop_oneof![8 => (0..=hi).prop_map(|x| x.to_string()), 1 => number_soup()];
    (1usize..=5, prop_oneof![3 => Just(None), 3 => (1usize..=3).prop_map(Some), 1 => Just(Some(0usize)), 1 => Just(Some(7usize))]).prop_flat_map(move |(size, dim)| {
        let d = dim.unwrap_or(2);
        let nops = prop_oneof![6 => Just(d + 1), 1 => Just(d), 1 => Just(d + 2)];
        let nms = prop_oneof![6 => Just(d), 1 => Just(d + 1), 1 => Just(d.saturating_sub(1))];
        (nops, nms).prop_flat_map(move |(nops, nms)| {
            (
                small(60),
                small(60),
                prop_oneof![8 => Just(size.to_string()), 1 => number_soup()],
                prop_oneof![8 => Just(dim.map(|x| x.to_string())), 1 => number_soup().prop_map(Some)],
                prop::collection::vec(prop::collection::vec(small(size + 1), 1..=size + 1), nops.max(1)),
                prop::collection::vec(prop::collection::vec(small(12), 1..=size + 1), nms.max(1)),
                prop::collection::vec(ws(), 5),
                prop::collection::vec(ws1(), 3),
            )
                .prop_map(|(a, b, size, dim, ops, ms, gaps, gaps1)| {
                    let mut tokens: Vec<String> = vec!["<".into(), a, ".".into(), b, ":".into(), size];
                    if let Some(d) = dim {
                        tokens.push(d);
                    }
                    tokens.push(":".into());
                    for (k, l) in ops.iter().enumerate() {
                        if k > 0 {
                            tokens.push(",".into());
                        }
                        tokens.extend(l.iter().cloned());
                    }
                    tokens.push(":".into());
                    for (k, l) in ms.iter().enumerate() {
                        if k > 0 {
                            tokens.push(",".into());
                        }
                        tokens.extend(l.iter().cloned());
                    }
                    tokens.push(">".into());
                    TextCase { text: join(&tokens, &gaps, &gaps1), kind: "grammar".into() }
                })
        })
    })
}

/// valid header and operations of a real symbol, degree lists replaced by arbitrary small numbers
fn degree_text(pool: Arc<Vec<DS>>) -> impl Strategy<Value = TextCase> {
    (pooled_symbol(pool), prop::collection::vec(prop_oneof![3 => Just(0usize), 6 => 0usize..=12, 1 => Just(24usize)], 40), prop::collection::vec(0usize..=2, 4)).prop_map(|(ds, nums, extra)| {
        let text = ds.text();
        let head = &text[..text.rfind(':').unwrap() + 1];
        let mut s = head.to_string();
        let mut k = 0;
        for i in 0..ds.dim {
            if i > 0 {
                s.push(',');
            }
            // between (number of orbits) and (number of chambers) + extra entries
            let orbits = ds.components(&[i, i + 1]).len();
            let len = (orbits + extra[i % extra.len()] * (ds.size - orbits + 1) / 2).max(1);
            for j in 0..len {
                if j > 0 {
                    s.push(' ');
                }
                // multiples of the orbit length are likelier to be accepted
                let d = 1 + j % ds.size;
                let n = nums[k % nums.len()];
                k += 1;
                s += &(if k % 3 == 0 { n } else { n * ds.r(i, i + 1, d) }).to_string();
            }
        }
        s.push('>');
        TextCase { text: s, kind: "grammar".into() }
    })
}

fn soup_text() -> impl Strategy<Value = TextCase> {
    prop_oneof![
        3 => prop::collection::vec(prop_oneof![number_soup(), Just("<".to_string()), Just(">".to_string()), Just(":".to_string()), Just(",".to_string()), Just(".".to_string()), Just(" ".to_string()), Just("\n".to_string()), Just("-".to_string())], 0..30).prop_map(|v| v.concat()),
        1 => ".{0,40}".prop_map(|s: String| s),
        1 => "<[0-9]{1,3}\\.[0-9]{1,3}:[0-9 ]{1,6}:[0-9 ,]{0,20}:[0-9 ,]{0,12}>",
    ]
    .prop_map(|text| TextCase { text, kind: "soup".into() })
}

fn pool(t: Tier) -> Arc<Vec<DS>> {
    let mut v = dsets_up_to(2, t.pick(5, 7));
    v.extend(dsets_up_to(3, t.pick(4, 5)));
    v.extend(dsets_up_to(1, t.pick(5, 8)));
    Arc::new(v)
}

pub fn run(ctx: &mut Ctx) {
    let t = ctx.tier;
    ctx.rule = "symbols: every branching assignment (v <= 3) on every D-set of the brute-force enumeration up to a size bound (exhaustive), plus proptest-generated renumbered symbols with large v and random connected symbols with up to 300 chambers (multi-digit tokens), printed from PartialDSym and SimpleDSym with arbitrary counters; strings: valid texts with random whitespace, 1-3 token mutations of valid texts, random specs in the grammar with out-of-range / 64-bit-boundary numbers, token soups and arbitrary unicode; oracle = harness table model (involutions, orbit lengths by walking) and its own reader".into();
    ctx.assume("equality of symbols ignores the printed <set.sym: counters (FromStr does not read them back)");
    ctx.assume("an Ok result may carry an undefined degree (text '0'); 0 counts as a multiple of the orbit length and must survive print/parse");
    crate::props::run_regressions(ctx, "C01");

    // --- exhaustive round trips
    ctx.layer("exhaustive");
    let dsets: Vec<DS> = { let mut v = dsets_up_to(2, t.pick(4, 5)); v.extend(dsets_up_to(3, t.pick(3, 4))); v.extend(dsets_up_to(1, 6)); v };
    let mut cases = vec![];
    let mut complete = true;
    for ds in &dsets {
        let (syms, all) = assignments(ds, 3, t.pick(2_000, 20_000));
        complete &= all;
        for (k, s) in syms.into_iter().enumerate() {
            cases.push(SymCase { ds: s, repr: (k % 4) as u8, counters: if k % 3 == 0 { (1, 1) } else { (k % 17 + 1, k % 5 + 1) } });
        }
    }
    let note = format!("all branching assignments v <= 3 on all {} D-sets (dim 2 size <= {}, dim 3 size <= {}, dim 1 size <= 6){}", dsets.len(), t.pick(4, 5), t.pick(3, 4), if complete { "" } else { " (capped per D-set: sampled where the cap applies)" });
    ctx.run_par(&SUB_ROUNDTRIP, cases, if complete { Some(&note) } else { None });
    if !complete {
        ctx.note(note);
    }

    // --- random round trips
    ctx.layer("random");
    let p = pool(t);
    let n = t.pick(30_000u32, 600_000u32);
    let sym_case = |s: BoxedStrategy<DS>| (s, 0u8..4, 1usize..1000, 1usize..1000).prop_map(|(ds, repr, a, b)| SymCase { ds, repr, counters: (a, b) });
    {
        let p = p.clone();
        ctx.run_prop(&SUB_ROUNDTRIP, move || sym_case(pooled_symbol(p.clone()).boxed()), n);
    }
    ctx.run_prop(&SUB_ROUNDTRIP, || sym_case(prop_oneof![random_symbol(2, 8..=40), random_symbol(3, 6..=40), random_symbol(1, 2..=40)].boxed()), n / 3);
    ctx.run_prop(&SUB_ROUNDTRIP, || sym_case(prop_oneof![random_symbol_any(2, 90..=300), random_symbol_any(3, 90..=300)].boxed()), n / 30);
    // any dimension 1..=6, arbitrary involutions (the text form does not depend on commutation)
    ctx.run_prop(&SUB_ROUNDTRIP, || sym_case(prop_oneof![unconstrained_symbol(1..=6, 1..=14), unconstrained_symbol(4..=6, 15..=120)].boxed()), n / 3);

    // --- strings
    let m = t.pick(40_000u32, 1_500_000u32);
    {
        let p = p.clone();
        ctx.run_prop(&SUB_PARSE, move || valid_text(p.clone()), m / 4);
    }
    {
        let p = p.clone();
        ctx.run_prop(&SUB_PARSE, move || mutated_text(p.clone()), m);
    }
    {
        let p = p.clone();
        ctx.run_prop(&SUB_PARSE, move || dset_text(p.clone()), m / 20);
    }
    ctx.run_prop(&SUB_PARSE, grammar_text, m);
    {
        let p = p.clone();
        ctx.run_prop(&SUB_PARSE, move || degree_text(p.clone()), m / 2);
    }
    ctx.run_prop(&SUB_PARSE, soup_text, m / 2);
}

pub fn replay(ctx: &mut Ctx, sub: &str, case: &Value) -> Option<Result<(), String>> {
    Some(match sub {
        "roundtrip" => ctx.run_one(&SUB_ROUNDTRIP, &SymCase::decode(case)?),
        "parse_total" => ctx.run_one(&SUB_PARSE, &TextCase::decode(case)?),
        _ => return None,
    })
}
