//! C11 — coset enumeration returns the true coset table of the subgroup
use crate::ensure;
use crate::gen::groups::*;
use crate::oracle::groups::*;
use crate::runner::*;
use crate::util::*;
use proptest::prelude::*;
use rust_dsymbols::fpgroups::cosets::{coset_representative, coset_table, CosetTable};
use rust_dsymbols::fpgroups::free_words::FreeWord;
use serde_json::{json, Value};
use std::collections::HashMap;
use std::sync::{Arc, Mutex, OnceLock};

#[derive(Clone, Debug, Hash)]
pub struct CosetCase {
    pub name: String,
    pub nr_gens: usize,
    pub rels: Vec<Word>,
    /// literature order of G (0 = infinite / unknown: then `index` must be given)
    pub order: u64,
    /// independently known index of H (0 = derive from the order and the regular representation)
    pub index: u64,
    pub sub: Vec<Word>,
    /// how the relators are presented to the crate: 0 as is, 1 rotated / inverted, 2 duplicated and reversed
    pub variant: u8,
}

impl Case for CosetCase {
    fn encode(&self) -> Value {
        json!({"group": self.name, "nr_gens": self.nr_gens, "relators": self.rels, "order": self.order, "index": self.index, "subgroup_generators": self.sub, "variant": self.variant})
    }
    fn decode(v: &Value) -> Option<Self> {
        Some(CosetCase {
            name: v.get("group")?.as_str()?.to_string(),
            nr_gens: v.get("nr_gens")?.as_u64()? as usize,
            rels: dec_words(v.get("relators")?)?,
            order: v.get("order")?.as_u64()?,
            index: v.get("index")?.as_u64()?,
            sub: dec_words(v.get("subgroup_generators")?)?,
            variant: v.get("variant")?.as_u64()? as u8,
        })
    }
    fn weight(&self) -> usize {
        self.order as usize + self.sub.iter().map(|w| w.len()).sum::<usize>()
    }
    fn hash64(&self) -> u64 {
        h64(self)
    }
}

/// the crate's FreeWord for a word. A quarter of the words (chosen by a hash of the letters) are values
/// with a HISTORY: the first half of the word is built, used the way relators are used (expanded,
/// inverted, cloned) and then extended in place with `*=` to the full word.
pub fn fw(w: &[i64]) -> FreeWord {
    let route = if w.len() >= 2 { h64(&w) % 10 } else { 9 };
    let k = w.len() / 2;
    let lit = |v: &[i64]| FreeWord::new(v.iter().map(|&x| x as isize));
    match route {
        0 | 1 => {
            let mut a = lit(&w[..k]);
            let _ = guarded(|| {
                let _ = rust_dsymbols::fpgroups::free_words::relator_permutations(&a);
                let _ = rust_dsymbols::fpgroups::free_words::relator_representative(&a);
                let _ = a.inverse();
                let _ = a.len();
                let _ = a.clone();
            });
            a *= &lit(&w[k..]);
            a
        }
        // letter by letter with `word * letter`, with detours that cancel again (g, then -g)
        2 => {
            let mut a = FreeWord::empty();
            for (i, &l) in w.iter().enumerate() {
                a = a * (l as isize);
                if i % 2 == 1 {
                    let g = w[(i * 7 + 3) % w.len()] as isize;
                    a = &a * g;
                    a = a * (-g);
                }
            }
            a
        }
        // a product in which a whole factor is absorbed: (u x) (x^-1 v)
        3 => {
            let x: Vec<i64> = w.iter().rev().take(2).cloned().collect();
            let mut left = w[..k].to_vec();
            left.extend(x.iter());
            let mut right: Vec<i64> = x.iter().rev().map(|&l| -l).collect();
            right.extend(w[k..].iter());
            if h64(&(w, 1)) % 2 == 0 { &lit(&left) * &lit(&right) } else { lit(&left) * lit(&right) }
        }
        // the inverse of the inverse, built the long way round; a conjugate that is conjugated back
        4 => {
            let inv: Vec<i64> = w.iter().rev().map(|&l| -l).collect();
            lit(&inv).inverse()
        }
        5 => {
            let g = w[0] as isize;
            let c = FreeWord::new([g]) * lit(w) * (-g);
            FreeWord::new([-g]) * c * g
        }
        _ => lit(w),
    }
}

/// read a crate coset table into plain data, validating completeness and the permutation property
pub fn read_table(t: &CosetTable, nr_gens: usize) -> Result<Table, String> {
    let n = t.len();
    ensure!(t.nr_gens() == nr_gens, "table has {} generators, expected {}", t.nr_gens(), nr_gens);
    let mut fwd = vec![];
    for r in 0..n {
        let mut row = vec![];
        for g in 1..=nr_gens as isize {
            let x = t.get(r, g).ok_or_else(|| format!("table entry ({}, {}) is undefined", r, g))?;
            ensure!(x < n, "table entry ({}, {}) = {} is not a row", r, g, x);
            let back = t.get(x, -g).ok_or_else(|| format!("table entry ({}, {}) is undefined", x, -g))?;
            ensure!(back == r, "generator {} and its inverse are not mutually inverse at row {}: {} -> {} -> {}", g, r, r, x, back);
            row.push(x);
        }
        for g in 1..=nr_gens as isize {
            ensure!(t.get(r, -g).is_some(), "table entry ({}, {}) is undefined", r, -g);
        }
        fwd.push(row);
    }
    Table::from_forward(nr_gens, fwd).ok_or_else(|| "a generator column of the table is not a permutation of the rows".to_string())
}

/// own regular representation of a corpus group, trusted only after it has the literature order
fn regular(c: &CosetCase) -> Result<Arc<Table>, String> {
    static CACHE: OnceLock<Mutex<HashMap<u64, Arc<Table>>>> = OnceLock::new();
    let cache = CACHE.get_or_init(|| Mutex::new(HashMap::new()));
    let key = h64(&(c.nr_gens, &c.rels));
    if let Some(t) = cache.lock().unwrap().get(&key) {
        return Ok(t.clone());
    }
    let t = todd_coxeter(c.nr_gens, &c.rels, &[], 200_000).ok_or("harness: reference enumeration of the whole group did not finish")?;
    ensure!(t.len() as u64 == c.order, "harness: reference Todd-Coxeter gives order {} for {}, literature says {}", t.len(), c.name, c.order);
    ensure!(t.is_transitive() && t.relators_close(&c.rels).is_none(), "harness: reference regular representation invalid");
    let t = Arc::new(t);
    cache.lock().unwrap().insert(key, t.clone());
    Ok(t)
}

fn presented_relators(c: &CosetCase) -> Vec<Word> {
    match c.variant {
        0 => c.rels.clone(),
        1 => c.rels.iter().enumerate().map(|(k, w)| { let mut v = w.clone(); if !v.is_empty() { v.rotate_left(1 % w.len()); } if k % 2 == 0 { inv_word(&v) } else { v } }).collect(),
        2 => c.rels.iter().rev().chain(c.rels.iter()).cloned().collect(),
        // 3: the list as given (repeated entries stay)
        _ => c.rels.clone(),
    }
}

fn check_coset(c: &CosetCase, obs: &mut Obs) -> Result<(), String> {
    ensure!(c.rels.iter().chain(c.sub.iter()).all(|w| w.iter().all(|&l| l != 0 && l.unsigned_abs() as usize <= c.nr_gens)), "harness: letter out of range");
    ensure!(c.rels.iter().all(|w| !free_reduce(w).is_empty()), "harness: empty relator");
    let sub: Vec<Word> = c.sub.iter().map(|w| free_reduce(w)).filter(|w| !w.is_empty()).collect();
    // expected index
    let (expected, h_order) = if c.order > 0 {
        let reg = regular(c)?;
        // |H| = orbit of the identity row under the generators of H
        let mut seen = vec![false; reg.len()];
        seen[0] = true;
        let mut stack = vec![0usize];
        let mut count = 1u64;
        while let Some(r) = stack.pop() {
            for w in &sub {
                for ww in [w.clone(), inv_word(w)] {
                    let x = reg.trace(r, &ww);
                    if !seen[x] {
                        seen[x] = true;
                        count += 1;
                        stack.push(x);
                    }
                }
            }
        }
        ensure!(c.order % count == 0, "harness: |H| = {} does not divide |G| = {}", count, c.order);
        (c.order / count, count)
    } else if c.index > 0 {
        (c.index, 0)
    } else {
        // no independent knowledge (random presentation): the reference Todd-Coxeter table is the
        // expectation. Of two VALID tables (complete, relators close everywhere, H fixes row 0) the
        // larger one is the coset table, so a smaller valid crate table is a certain violation and a
        // larger one would be an error of the harness's own enumeration.
        match todd_coxeter(c.nr_gens, &c.rels, &sub, 3_000) {
            Some(t) => {
                ensure!(t.is_transitive() && t.relators_close(&c.rels).is_none() && sub.iter().all(|w| t.trace(0, w) == 0), "harness: the reference Todd-Coxeter table is not a valid coset table");
                (t.len() as u64, 0)
            }
            None => {
                obs.discard("index infinite or beyond 3000 (reference enumeration gave up)");
                return Ok(());
            }
        }
    };
    // the routine under test
    let rels: Vec<FreeWord> = presented_relators(c).iter().map(|w| fw(w)).collect();
    let subw: Vec<FreeWord> = sub.iter().map(|w| fw(w)).collect();
    // The documented row limit is a legitimate way out for enumerations that are too hard, but not for
    // a subgroup whose reference enumeration (textbook HLT) never needs more than 1500 rows: hitting
    // 100 000 rows there means that the enumeration does not converge although the index is finite.
    let ct = match guarded(|| coset_table(c.nr_gens, &rels, &subw)) {
        Ok(ct) => ct,
        Err(m) if m.contains("Reached coset table limit") => {
            // only for groups whose order (or lattice index) is known from the literature: on a random
            // presentation with a free generator the crate's row-by-row strategy can legitimately need
            // more than 100 000 rows where relator-filling needs a few hundred (seen: Z * K with K trivial
            // only through a relator of length 15, index 3)
            if (c.order > 0 || c.index > 0) && expected <= 1500 && todd_coxeter(c.nr_gens, &c.rels, &sub, 1500).is_some() {
                return Err(format!("coset_table gives up at its limit of 100 000 rows although [G:H] = {} in a group of known order / index and the reference enumeration never needs more than 1500 rows", expected));
            }
            obs.discard("Reached coset table limit (random presentation, or the reference enumeration needs more than 1500 rows as well)");
            return Ok(());
        }
        Err(m) => return Err(format!("panic: {}", m)),
    };
    let t = read_table(&ct, c.nr_gens)?;
    ensure!(t.is_transitive(), "the action on the {} rows is not transitive", t.len());
    if let Some((k, r)) = t.relators_close(&c.rels) {
        return Err(format!("relator {:?} traced from row {} ends in row {}", c.rels[k], r, t.trace(r, &c.rels[k])));
    }
    for w in &sub {
        let e = t.trace(0, w);
        ensure!(e == 0, "subgroup generator {:?} traced from row 0 ends in row {} (rows: {})", w, e, t.len());
    }
    if c.order == 0 && c.index == 0 && t.len() as u64 > expected {
        return Err(format!("harness: the crate's valid table has {} rows but the reference enumeration only {}", t.len(), expected));
    }
    ensure!(t.len() as u64 == expected, "table has {} rows, [G:H] = {}", t.len(), expected);
    // coset representatives
    let reps = coset_representative(&ct);
    for r in 0..t.len() {
        let w = reps.get(&r).ok_or_else(|| format!("no coset representative for row {}", r))?;
        let lw: Word = w.iter().map(|&x| x as i64).collect();
        let e = t.trace(0, &lw);
        ensure!(e == r, "coset representative {:?} of row {} traced from row 0 ends in row {}", lw, r, e);
    }
    ensure!(reps.len() == t.len(), "{} coset representatives for {} rows", reps.len(), t.len());
    // the same action with its rows renumbered (a table assembled through the public new / set): the
    // representatives must still lead from row 0 to their rows - nothing says rows are numbered in the
    // order in which they are reached
    if t.len() >= 3 {
        let hsh = h64(&(c.name.as_str(), &c.sub, t.len()));
        let sw: Vec<(u32, u32)> = (0..4u32).map(|j| ((hsh >> (j * 8)) as u32 ^ 0x9E37, (hsh >> (j * 8 + 32)) as u32)).collect();
        let rt = crate::props::c05::renumber_rows(&t, &sw);
        let rct = crate::props::c13::to_crate_table(&rt);
        let rreps = guarded(|| coset_representative(&rct)).map_err(|m| format!("coset_representative panics on the table with renumbered rows: {}", m))?;
        for r in 0..rt.len() {
            let w = rreps.get(&r).ok_or_else(|| format!("rows renumbered (table {:?}): no coset representative for row {}", rt.fwd, r))?;
            let lw: Word = w.iter().map(|&x| x as i64).collect();
            let e = rt.trace(0, &lw);
            ensure!(e == r, "rows renumbered (table {:?}): coset representative {:?} of row {} traced from row 0 ends in row {}", rt.fwd, lw, r, e);
        }
        ensure!(rreps.len() == rt.len(), "rows renumbered: {} coset representatives for {} rows", rreps.len(), rt.len());
        obs.class("coset representatives on a renumbered table");
    }
    // differential: the action with base point H is unique up to relabelling that fixes row 0
    let own = todd_coxeter(c.nr_gens, &c.rels, &sub, 400_000).ok_or("harness: reference enumeration did not finish")?;
    ensure!(own.is_transitive() && own.relators_close(&c.rels).is_none() && sub.iter().all(|w| own.trace(0, w) == 0), "harness: the reference Todd-Coxeter table is not a valid coset table");
    ensure!(own.len() == t.len() && own.based_code(0) == t.based_code(0), "table differs from the reference Todd-Coxeter table as a based action ({} vs {} rows)", t.len(), own.len());
    // bijection rows <-> right cosets in the regular representation
    if c.order > 0 && c.order <= 2000 {
        let reg = regular(c)?;
        let trans = t.transversal(0);
        // elements of H
        let mut h_rows = vec![0usize];
        let mut seen = vec![false; reg.len()];
        seen[0] = true;
        let mut i = 0;
        while i < h_rows.len() {
            let r = h_rows[i];
            i += 1;
            for w in &sub {
                for ww in [w.clone(), inv_word(w)] {
                    let x = reg.trace(r, &ww);
                    if !seen[x] {
                        seen[x] = true;
                        h_rows.push(x);
                    }
                }
            }
        }
        let mut owner = vec![usize::MAX; reg.len()];
        for r in 0..t.len() {
            for &h in &h_rows {
                let x = reg.trace(h, &trans[r]);
                ensure!(owner[x] == usize::MAX || owner[x] == r, "rows {} and {} of the table describe the same right coset of H", owner[x], r);
                owner[x] = r;
            }
        }
        ensure!(owner.iter().all(|&o| o != usize::MAX), "the rows of the table do not cover all right cosets of H");
        obs.class("coset bijection checked in the regular representation");
    }
    let normal = sub.iter().all(|w| (0..own.len()).all(|r| own.trace(r, w) == r));
    let proper = expected > 1;
    let nontriv_h = h_order != 1 && !sub.is_empty();
    obs.nontrivial(proper && nontriv_h && !normal);
    obs.classify(!normal, "non-normal subgroup");
    obs.classify(expected == 1, "H = G");
    obs.classify(sub.is_empty(), "trivial subgroup");
    obs.classify(c.order == 0 && c.index > 0, "infinite group, finite index");
    obs.classify(c.order == 0 && c.index == 0, "random presentation, index from the reference enumeration");
    obs.classify(c.variant != 0, "relators rotated / inverted / duplicated");
    Ok(())
}

pub const SUB_COSET: Sub<CosetCase> = Sub {
    name: "coset_table",
    rule: "(finite presentation with literature order or known index, subgroup generators, relator presentation): complete table, generator columns are permutations inverse to the inverse generator's, transitive, every relator closes at every row, every subgroup generator closes at row 0, rows = [G:H] (|H| from the own regular representation), coset representatives trace to their rows, table equals the reference Todd-Coxeter table as a based action, rows biject onto right cosets; non-trivial = H proper, non-trivial and not normal",
    check: check_coset,
    panic_discards: &["Reached coset table limit"],
    journal: false,
};

// ---------------------------------------------------------------------------

/// all reduced words of length 1..=len over n generators
pub fn short_words(n: usize, len: usize) -> Vec<Word> {
    crate::props::c10::reduced_words(n as i64, len).into_iter().filter(|w| !w.is_empty()).collect()
}

fn base_case(g: &Named, sub: Vec<Word>, variant: u8) -> CosetCase {
    CosetCase { name: g.name.clone(), nr_gens: g.pres.nr_gens, rels: g.pres.rels.clone(), order: g.order.unwrap_or(0), index: 0, sub, variant }
}

fn lattice_cases(thorough: bool) -> Vec<CosetCase> {
    // G = Z^n, H generated by the rows of an integer matrix: index = |det|
    let mut out = vec![];
    let z2 = infinite_groups().into_iter().find(|g| g.name == "Z^2").unwrap();
    let z3 = infinite_groups().into_iter().find(|g| g.name == "Z^3").unwrap();
    let word = |row: &[i64]| -> Word {
        let mut w = vec![];
        for (g, &e) in row.iter().enumerate() {
            for _ in 0..e.abs() {
                w.push(if e > 0 { g as i64 + 1 } else { -(g as i64 + 1) });
            }
        }
        w
    };
    for a in -3i64..=3 {
        for b in -3i64..=3 {
            for cc in -2i64..=2 {
                for d in 1i64..=3 {
                    let det = a * d - b * cc;
                    if det != 0 {
                        let mut c = base_case(&z2, vec![word(&[a, b]), word(&[cc, d])], ((a + b + 6) % 3) as u8);
                        c.index = det.unsigned_abs();
                        out.push(c);
                    }
                }
            }
        }
    }
    // enumerations that need more than 2^16 rows (below the crate's limit of 100 000)
    for (a, d) in [(256i64, 258i64), (2, 33_000)].into_iter().take(if thorough { 2 } else { 1 }) {
        let mut c = base_case(&z2, vec![word(&[a, 0]), word(&[0, d])], 0);
        c.index = (a * d) as u64;
        out.push(c);
    }
    if thorough {
        let mut c = base_case(&z3, vec![word(&[41, 0, 0]), word(&[0, 41, 0]), word(&[0, 0, 40])], 0);
        c.index = 67_240;
        out.push(c);
    }
    for (m, det) in [([[2i64, 0, 0], [0, 2, 0], [0, 0, 2]], 8u64), ([[1, 1, 0], [0, 2, 1], [1, 0, 3]], 7), ([[2, 1, 0], [0, 1, 1], [1, 0, 2]], 5), ([[3, 0, 0], [1, 1, 0], [0, 1, 2]], 6)] {
        let mut c = base_case(&z3, m.iter().map(|r| word(r)).collect(), 0);
        c.index = det;
        out.push(c);
    }
    out
}

pub fn run(ctx: &mut Ctx) {
    let t = ctx.tier;
    ctx.rule = "group corpus with literature orders (cyclic, dihedral, abelian, Coxeter A/B/D/F/H, von Dyck, binary polyhedral, dicyclic, Fibonacci F(2,5), PSL(2,7)) crossed with the trivial subgroup, the whole group, ALL generator sets of at most two reduced words of length <= 2 (exhaustive) and proptest-generated sets of up to three words of length <= 8, relators presented as given / rotated and inverted / duplicated; sublattices of Z^2 and Z^3 with index |det|; oracle = validity by own tracing plus own reference Todd-Coxeter (regular representation trusted only at the literature order)".into();
    ctx.assume("finite index only; 'Reached coset table limit of 100_000' is a documented discard");
    ctx.assume("relators are non-empty reduced words over generators 1..n (caller precondition)");
    crate::props::run_regressions(ctx, "C11");

    ctx.layer("exhaustive");
    let groups = finite_groups(t == Tier::Thorough);
    let max_order = t.pick(1200u64, 20_000u64);
    let mut cases = vec![];
    for g in groups.iter().filter(|g| g.order.unwrap() <= max_order) {
        let n = g.pres.nr_gens;
        let words = short_words(n, 2);
        cases.push(base_case(g, vec![], 0));
        cases.push(base_case(g, (1..=n as i64).map(|x| vec![x]).collect(), 1));
        // big groups get single words and a deterministic slice of the pairs
        let stride = if g.order.unwrap() > 400 { 7 } else { 1 };
        for (i, a) in words.iter().enumerate() {
            cases.push(base_case(g, vec![a.clone()], (i % 3) as u8));
            for (j, b) in words.iter().enumerate().skip(i + 1) {
                if (i * 31 + j) % stride == 0 {
                    cases.push(base_case(g, vec![a.clone(), b.clone()], ((i + j) % 3) as u8));
                }
            }
        }
    }
    cases.extend(lattice_cases(t == Tier::Thorough));
    let n = cases.len();
    ctx.run_par(&SUB_COSET, cases, Some(&format!("{} (group, subgroup) pairs: every corpus group of order <= {} x {{trivial, whole group, all sets of <= 2 reduced words of length <= 2 (1/7 of the pairs for orders > 400)}}, and all 2x2 sublattices of Z^2 with entries in -3..3", n, max_order)));

    // degenerate shapes: no generators at all, groups that are trivial through one-letter relators, free
    // generators next to finite factors, repeated list entries
    ctx.layer("degenerate");
    {
        let mk = |name: &str, nr_gens: usize, rels: Vec<Word>, order: u64, index: u64, sub: Vec<Word>, variant: u8| CosetCase { name: name.to_string(), nr_gens, rels, order, index, sub, variant };
        let mut deg = vec![];
        for v in [0u8, 3] {
            deg.push(mk("trivial group on no generators", 0, vec![], 1, 0, vec![], v));
            deg.push(mk("trivial group <a | a>", 1, vec![vec![1]], 1, 0, vec![], v));
            deg.push(mk("trivial group <a | a^-1>", 1, vec![vec![-1]], 1, 0, vec![vec![1]], v));
            deg.push(mk("trivial group <a, b | a, b>", 2, vec![vec![1], vec![2]], 1, 0, vec![], v));
            deg.push(mk("trivial group <a, b, c | c, a, b>", 3, vec![vec![3], vec![1], vec![2]], 1, 0, vec![vec![2, 3]], v));
            deg.push(mk("Z2 = <a, b | a, b^2>", 2, vec![vec![1], vec![2, 2]], 2, 0, vec![], v));
            deg.push(mk("Z2 = <a, b | b, a^2>", 2, vec![vec![2], vec![1, 1]], 2, 0, vec![vec![2]], v));
            deg.push(mk("Z3 = <a, b, c | a, c, b^3>", 3, vec![vec![1], vec![3], vec![2, 2, 2]], 3, 0, vec![vec![1, 3]], v));
            deg.push(mk("Z = <a> with H = <a^n>", 1, vec![], 0, 3, vec![vec![1, 1, 1]], v));
            deg.push(mk("Z = <a> with H = <a^-1>", 1, vec![], 0, 1, vec![vec![-1]], v));
            deg.push(mk("F2 with H = F2", 2, vec![], 0, 1, vec![vec![2], vec![1]], v));
            deg.push(mk("Z * Z2 with H = <a, b>", 2, vec![vec![2, 2]], 0, 1, vec![vec![1], vec![2]], v));
            deg.push(mk("Z x Z2, H = <a^2>", 2, vec![vec![2, 2], vec![1, 2, -1, -2]], 0, 4, vec![vec![1, 1]], v));
        }
        // repeated entries, handed over as they are. Empty words are NOT generated: every caller inside the
        // crate filters them out (fundamental_group: `if rel.len() > 0`), and coset_table indexes w[0]
        deg.push(mk("S3 with a repeated subgroup generator", 2, vec![vec![1, 1], vec![2, 2], vec![1, 2, 1, 2, 1, 2]], 6, 0, vec![vec![2], vec![2], vec![2]], 3));
        deg.push(mk("S3 with a repeated relator", 2, vec![vec![1, 1], vec![1, 1], vec![2, 2], vec![1, 2, 1, 2, 1, 2], vec![2, 2]], 6, 0, vec![vec![1, 2]], 3));
        ctx.run_par(&SUB_COSET, deg, None);
    }

    ctx.layer("random");
    let pool = Arc::new(groups.into_iter().filter(|g| g.order.unwrap() <= max_order).collect::<Vec<_>>());
    let p2 = pool.clone();
    ctx.run_prop(
        &SUB_COSET,
        move || {
            let pool = p2.clone();
            (any::<u32>(), prop::collection::vec(prop::collection::vec((1i64..=5, any::<bool>()), 1..=8), 0..=3), 0u8..3).prop_map(move |(k, ws, variant)| {
                let g = &pool[pick_index(k, pool.len())];
                let n = g.pres.nr_gens as i64;
                let sub = ws.into_iter().map(|w| w.into_iter().map(|(l, neg)| { let l = (l - 1) % n + 1; if neg { -l } else { l } }).collect()).collect();
                base_case(g, sub, variant)
            })
        },
        t.pick(40_000, 1_500_000),
    );
    // fundamental groups of spherical 2D symbols: order 4/K (curvature from the harness's own formula),
    // presented by the textbook presentation (many generators and relators)
    ctx.layer("spherical-2d-groups");
    {
        use crate::gen::dsets::dsets_of_size;
        use crate::gen::dsyms::{assign, orbit_reps};
        use crate::oracle::fg::own_fundamental_group;
        use crate::oracle::orb2;
        use num_traits::Signed;
        let mut sph: Vec<CosetCase> = vec![];
        for n in 1..=t.pick(6usize, 8usize) {
            for ds in dsets_of_size(2, n) {
                let reps = orbit_reps(&ds);
                // all assignments with v <= 5 (the groups are finite only for positive curvature)
                let total = 5u64.pow(reps.len() as u32).min(4096);
                for idx in 0..total {
                    let mut k = idx;
                    let vs: Vec<usize> = reps.iter().map(|_| { let v = (k % 5) as usize + 1; k /= 5; v }).collect();
                    let x = assign(&ds, &reps, &vs);
                    let kx = orb2::curvature(&x);
                    if !kx.is_positive() {
                        continue;
                    }
                    if orb2::invariants(&x).map_or(true, |o| o.is_bad()) {
                        continue;
                    }
                    let order = num_rational::Rational64::from(4) / kx;
                    if !order.is_integer() || order.to_integer() > 240 {
                        continue;
                    }
                    let fg = own_fundamental_group(&x);
                    if fg.pres.nr_gens == 0 || fg.pres.rels.is_empty() {
                        continue;
                    }
                    let g = fg.pres.nr_gens as i64;
                    let name = format!("fundamental group of the spherical 2D symbol {} (order 4/K = {})", x.text(), order.to_integer());
                    let mk = |sub: Vec<Word>, variant: u8| CosetCase { name: name.clone(), nr_gens: fg.pres.nr_gens, rels: fg.pres.rels.clone(), order: order.to_integer() as u64, index: 0, sub, variant };
                    sph.push(mk(vec![], 0));
                    sph.push(mk(vec![vec![1]], 1));
                    sph.push(mk(vec![vec![g, 1]], 2));
                    sph.push(mk(vec![vec![1, -g], vec![(g + 1) / 2]], (idx % 3) as u8));
                }
            }
        }
        let n = sph.len();
        ctx.run_par(&SUB_COSET, sph, Some(&format!("{} (group, subgroup) pairs: textbook presentations of the orbifold groups of all good spherical 2D symbols (branching <= 5, <= {} chambers, order 4/K <= 240) x 4 subgroups", n, t.pick(6, 8))));
    }
    // random presentations, random subgroup words (no literature value: reference enumeration + maximality argument)
    ctx.layer("random-presentations");
    ctx.run_prop(
        &SUB_COSET,
        || {
            (random_presentation(3), prop::collection::vec(prop::collection::vec((1i64..=3, any::<bool>()), 1..=7), 0..=3), 0u8..3).prop_filter_map("non-empty relator list", |((n, rels), ws, variant)| {
                if rels.is_empty() {
                    return None;
                }
                let sub = ws.into_iter().map(|w| w.into_iter().map(|(l, neg)| { let l = (l - 1) % n as i64 + 1; if neg { -l } else { l } }).collect()).collect();
                Some(CosetCase { name: format!("random presentation on {} generators", n), nr_gens: n, rels, order: 0, index: 0, sub, variant })
            })
        },
        t.pick(20_000, 1_000_000),
    );
}

/// random presentation: relators are random reduced words or proper powers of short words
pub fn random_presentation(max_gens: usize) -> impl Strategy<Value = (usize, Vec<Word>)> {
    (1usize..=max_gens, any::<bool>()).prop_flat_map(|(n, torsion)| {
        let letter = move || (1..=n as i64, any::<bool>()).prop_map(|(l, s)| if s { -l } else { l });
        let rel = prop_oneof![
            2 => prop::collection::vec(letter(), 1..=6),
            3 => (prop::collection::vec(letter(), 1..=3), 2usize..=6).prop_map(|(w, e)| { let mut v = vec![]; for _ in 0..e { v.extend(w.iter()); } v }),
            // near-periodic words u^k u' (u' a proper prefix of u): not proper powers, but with a period
            2 => (prop::collection::vec(letter(), 2..=4), 2usize..=4, 1usize..=3).prop_map(|(w, e, cut)| { let mut v = vec![]; for _ in 0..e { v.extend(w.iter()); } v.extend(w[..cut.min(w.len() - 1)].iter()); v }),
            // commutators and conjugation relators x y x^-1 y^(+-k)
            1 => (letter(), letter(), 1usize..=3, any::<bool>()).prop_map(|(x, y, k, inv)| { let mut v = vec![x, y, -x]; for _ in 0..k { v.push(if inv { -y } else { y }); } v }),
        ];
        // with `torsion` every generator gets a power relator first, which makes finite groups
        // (and finite-index subgroups) much more frequent
        (prop::collection::vec(rel, 1..=4), prop::collection::vec(2usize..=5, n)).prop_map(move |(rels, exps)| {
            let mut all: Vec<Word> = vec![];
            if torsion {
                for (g, &e) in exps.iter().enumerate() {
                    all.push(vec![g as i64 + 1; e]);
                }
            }
            all.extend(rels.into_iter().map(|w| free_reduce(&w)).filter(|w| !w.is_empty()));
            (n, all)
        })
    })
}

pub fn replay(ctx: &mut Ctx, sub: &str, case: &Value) -> Option<Result<(), String>> {
    Some(match sub {
        "coset_table" => ctx.run_one(&SUB_COSET, &CosetCase::decode(case)?),
        _ => return None,
    })
}
