//! C14 — abelian invariants are the invariant factors of the relation lattice
use crate::ensure;
use crate::oracle::snf::*;
use crate::props::c10::{m_inv, m_reduce};
use crate::runner::*;
use crate::util::*;
use num_bigint::BigInt;
use num_traits::{One, Zero};
use proptest::prelude::*;
use rust_dsymbols::fpgroups::free_words::FreeWord;
use rust_dsymbols::fpgroups::invariants::abelian_invariants;
use serde_json::{json, Value};

/// A presentation plus a recipe for an equivalent presentation (metamorphic variant).
#[derive(Clone, Debug, Hash)]
pub struct Pres {
    pub nr_gens: usize,
    pub rels: Vec<Vec<i64>>,
    /// per relator: (rotate by, invert?, conjugating letter or 0)
    pub twist: Vec<(u8, bool, i64)>,
    /// transpositions applied to the relator order
    pub order: Vec<(u8, u8)>,
    /// transpositions applied to the generator names, then sign flips by mask
    pub gen_swaps: Vec<(u8, u8)>,
    pub gen_flip: u32,
    /// extra relators appended: products rel[i] * rel[j]^(+-1)
    pub extra: Vec<(u8, u8, bool)>,
}

impl Case for Pres {
    fn encode(&self) -> Value {
        json!({
            "nr_gens": self.nr_gens, "relators": self.rels,
            "twist": self.twist.iter().map(|t| json!([t.0, t.1, t.2])).collect::<Vec<_>>(),
            "order": self.order.iter().map(|t| json!([t.0, t.1])).collect::<Vec<_>>(),
            "gen_swaps": self.gen_swaps.iter().map(|t| json!([t.0, t.1])).collect::<Vec<_>>(),
            "gen_flip": self.gen_flip,
            "extra": self.extra.iter().map(|t| json!([t.0, t.1, t.2])).collect::<Vec<_>>(),
        })
    }
    fn decode(v: &Value) -> Option<Self> {
        let arr = |k: &str| v.get(k).and_then(|x| x.as_array()).cloned().unwrap_or_default();
        Some(Pres {
            nr_gens: v.get("nr_gens")?.as_u64()? as usize,
            rels: dec_words(v.get("relators")?)?,
            twist: arr("twist").iter().filter_map(|t| Some((t.get(0)?.as_u64()? as u8, t.get(1)?.as_bool()?, t.get(2)?.as_i64()?))).collect(),
            order: arr("order").iter().filter_map(|t| Some((t.get(0)?.as_u64()? as u8, t.get(1)?.as_u64()? as u8))).collect(),
            gen_swaps: arr("gen_swaps").iter().filter_map(|t| Some((t.get(0)?.as_u64()? as u8, t.get(1)?.as_u64()? as u8))).collect(),
            gen_flip: v.get("gen_flip").and_then(|x| x.as_u64()).unwrap_or(0) as u32,
            extra: arr("extra").iter().filter_map(|t| Some((t.get(0)?.as_u64()? as u8, t.get(1)?.as_u64()? as u8, t.get(2)?.as_bool()?))).collect(),
        })
    }
    fn weight(&self) -> usize {
        self.rels.iter().map(|w| w.len()).sum::<usize>() + self.nr_gens
    }
    fn hash64(&self) -> u64 {
        h64(self)
    }
}

fn crate_invariants(nr_gens: usize, rels: &[Vec<i64>]) -> Vec<BigInt> {
    // words reach the crate the way callers build them: literally, or as values with a history (see fw)
    let ws: Vec<FreeWord> = rels.iter().map(|w| crate::props::c11::fw(w)).collect();
    // the relator list reaches the crate in the argument forms a caller may use: a slice iterator, the Vec by
    // reference, and lazy iterators that do not know their length in advance (filter, flat_map, chain)
    let out = match h64(&(nr_gens, rels)) % 5 {
        0 => abelian_invariants(nr_gens, ws.iter()),
        1 => abelian_invariants(nr_gens, &ws),
        2 => abelian_invariants(nr_gens, ws.iter().filter(|w| w.len() < usize::MAX)),
        3 => abelian_invariants(nr_gens, ws.chunks(2).flat_map(|c| c.iter())),
        _ => {
            let k = ws.len() / 2;
            abelian_invariants(nr_gens, ws[..k].iter().chain(ws[k..].iter()))
        }
    };
    out.into_iter().map(BigInt::from).collect()
}

/// the equivalent presentation described by the recipe
pub fn variant(c: &Pres) -> Vec<Vec<i64>> {
    let n = c.nr_gens as i64;
    let mut rels: Vec<Vec<i64>> = c.rels.clone();
    // products of existing relators first (they refer to the original list)
    for &(i, j, inv) in &c.extra {
        if rels.is_empty() {
            break;
        }
        let a = c.rels[i as usize % c.rels.len()].clone();
        let b = c.rels[j as usize % c.rels.len()].clone();
        let mut w = a;
        w.extend(if inv { m_inv(&b) } else { b });
        rels.push(w);
    }
    for (k, w) in rels.iter_mut().enumerate() {
        if let Some(&(rot, inv, conj)) = c.twist.get(k) {
            if !w.is_empty() {
                let r = rot as usize % w.len();
                w.rotate_left(r);
            }
            if inv {
                *w = m_inv(w);
            }
            if conj != 0 && conj.abs() <= n {
                let mut u = vec![conj];
                u.extend(w.iter());
                u.push(-conj);
                *w = u;
            }
        }
    }
    let len = rels.len();
    for &(a, b) in &c.order {
        if len > 0 {
            rels.swap(a as usize % len, b as usize % len);
        }
    }
    // rename / invert generators
    let mut name: Vec<i64> = (1..=n).collect();
    for &(a, b) in &c.gen_swaps {
        if n > 0 {
            name.swap(a as usize % n as usize, b as usize % n as usize);
        }
    }
    for w in rels.iter_mut() {
        for l in w.iter_mut() {
            let g = l.abs();
            let mut x = name[(g - 1) as usize];
            if c.gen_flip >> ((g - 1) % 32) & 1 == 1 {
                x = -x;
            }
            *l = if *l > 0 { x } else { -x };
        }
    }
    rels
}

fn check_pres(c: &Pres, obs: &mut Obs) -> Result<(), String> {
    for w in &c.rels {
        ensure!(w.iter().all(|&l| l != 0 && l.unsigned_abs() as usize <= c.nr_gens), "harness: letter out of range");
    }
    let m = exponent_matrix(c.nr_gens, &c.rels);
    let diag = if m.is_empty() || c.nr_gens == 0 {
        vec![]
    } else {
        match try_smith_diagonal(&to_big(&m), 4096) {
            Some(d) => d,
            None => {
                obs.discard("oracle: Smith normal form entries exceeded 4096 bits");
                return Ok(());
            }
        }
    };
    let rank = diag.len();
    // oracle cross-validation on small matrices
    if !m.is_empty() && m.len() <= 5 && c.nr_gens <= 5 && c.nr_gens > 0 && m.iter().flatten().all(|x| x.abs() <= 1000) {
        let d2 = smith_by_minors(&m);
        ensure!(d2 == diag, "harness oracle disagreement: elimination {:?} vs determinantal divisors {:?}", diag, d2);
        obs.class("oracle cross-checked by determinantal divisors");
    }
    for k in 1..diag.len() {
        ensure!((&diag[k] % &diag[k - 1]).is_zero(), "harness oracle: not a divisibility chain {:?}", diag);
    }
    let expect = abelian_invariants_from_diag(c.nr_gens, &diag);
    let got = crate_invariants(c.nr_gens, &c.rels);
    ensure!(got == expect, "abelian_invariants = {:?}, invariant factors of the relation lattice give {:?} (matrix {:?})", got, expect, m);
    let nontrivial = (rank >= 2 && diag.iter().any(|d| !d.is_one())) || rank < m.len().min(c.nr_gens);
    obs.nontrivial(nontrivial);
    obs.classify(rank < m.len().min(c.nr_gens), "rank deficient");
    obs.classify(diag.iter().filter(|d| !d.is_one()).count() >= 2, ">= 2 non-trivial factors");
    obs.classify(c.nr_gens > rank, "has free part");
    obs.classify(m.len() > c.nr_gens, "more relators than generators");
    obs.classify(m.len() < c.nr_gens, "fewer relators than generators");
    // ascending
    ensure!(got.windows(2).all(|w| w[0] <= w[1]), "result {:?} is not ascending", got);
    // metamorphic variant
    let v = variant(c);
    let got_v = crate_invariants(c.nr_gens, &v);
    ensure!(got_v == got, "equivalent presentation gives {:?} instead of {:?}; variant relators {:?}", got_v, got, v);
    // free reduction of relators does not matter either
    let red: Vec<Vec<i64>> = v.iter().map(|w| m_reduce(w)).collect();
    let got_r = crate_invariants(c.nr_gens, &red);
    ensure!(got_r == got, "freely reduced variant gives {:?} instead of {:?}", got_r, got);
    Ok(())
}

pub const SUB_PRES: Sub<Pres> = Sub {
    name: "invariants",
    rule: "(generators, relator words, recipe for an equivalent presentation): abelian_invariants vs Smith normal form over BigInt (cross-checked by determinantal divisors when <= 5x5) and vs the transformed presentation; non-trivial = rank >= 2 with a factor > 1, or rank < min(rows, cols)",
    check: check_pres,
    panic_discards: &["with overflow"],
    journal: false,
};

// ---------------------------------------------------------------------------
// generators

/// realise an exponent-sum row as a word with its letters interleaved according to `shuffle`
pub fn word_from_row(row: &[i64], shuffle: &[u32]) -> Vec<i64> {
    let mut letters: Vec<i64> = vec![];
    for (g, &e) in row.iter().enumerate() {
        for _ in 0..e.abs() {
            letters.push(if e > 0 { g as i64 + 1 } else { -(g as i64 + 1) });
        }
    }
    // Fisher-Yates driven by the shuffle values (all randomness comes from the strategy)
    let n = letters.len();
    for i in (1..n).rev() {
        let j = pick_index(shuffle[i % shuffle.len().max(1)].wrapping_mul(2654435761).wrapping_add(i as u32 * 40503), i + 1);
        letters.swap(i, j);
    }
    letters
}

fn recipe(rows: usize) -> impl Strategy<Value = (Vec<(u8, bool, i64)>, Vec<(u8, u8)>, Vec<(u8, u8)>, u32, Vec<(u8, u8, bool)>)> {
    (
        prop::collection::vec((any::<u8>(), any::<bool>(), -6i64..=6), 0..=rows + 2),
        prop::collection::vec((any::<u8>(), any::<u8>()), 0..4),
        prop::collection::vec((any::<u8>(), any::<u8>()), 0..4),
        any::<u32>(),
        prop::collection::vec((any::<u8>(), any::<u8>(), any::<bool>()), 0..3),
    )
}

fn entry() -> impl Strategy<Value = i64> {
    prop_oneof![4 => -3i64..=3, 2 => -20i64..=20, 1 => Just(0i64)]
}

fn matrix_case() -> impl Strategy<Value = Pres> {
    (0usize..=5, 0usize..=5).prop_flat_map(|(r, n)| {
        let mat = prop_oneof![
            // iid entries
            3 => prop::collection::vec(prop::collection::vec(entry(), n), r),
            // diagonal with planted factors, scrambled by unimodular row/column operations
            3 => (prop::collection::vec(prop_oneof![Just(0i64), Just(1), Just(2), Just(3), Just(4), Just(6), Just(12), Just(5)], r.min(n)),
                  prop::collection::vec((any::<u8>(), any::<u8>(), -2i64..=2, any::<bool>()), 0..8))
                .prop_map(move |(d, ops)| {
                    let mut m = vec![vec![0i64; n]; r];
                    for (k, &x) in d.iter().enumerate() { m[k][k] = x; }
                    for (a, b, f, is_row) in ops {
                        if is_row && r >= 2 {
                            let (a, b) = (a as usize % r, b as usize % r);
                            if a != b { for j in 0..n { m[a][j] += f * m[b][j]; } }
                        } else if !is_row && n >= 2 {
                            let (a, b) = (a as usize % n, b as usize % n);
                            if a != b { for row in m.iter_mut() { row[a] += f * row[b]; } }
                        }
                    }
                    m
                }),
            // rank deficient: later rows are combinations of the first ones
            2 => (prop::collection::vec(prop::collection::vec(-3i64..=3, n), r), prop::collection::vec(-2i64..=2, 8))
                .prop_map(move |(mut m, f)| {
                    if r >= 2 {
                        for i in (r + 1) / 2..r {
                            for j in 0..n { m[i][j] = f[i % 8] * m[0][j] + f[(i + 3) % 8] * m[(i - 1) % ((r + 1) / 2)][j]; }
                        }
                    }
                    m
                }),
        ];
        (mat, prop::collection::vec(any::<u32>(), 8), recipe(r)).prop_map(move |(m, sh, (twist, order, gen_swaps, gen_flip, extra))| {
            let rels = m.iter().map(|row| word_from_row(&row.iter().map(|x| x.clamp(&-40, &40)).cloned().collect::<Vec<_>>(), &sh)).collect();
            Pres { nr_gens: n, rels, twist, order, gen_swaps, gen_flip, extra }
        })
    })
}

/// larger sparse presentations (many generators, short relators) as they come out of D-symbol groups
fn sparse_case() -> impl Strategy<Value = Pres> {
    (6usize..=40).prop_flat_map(|n| {
        (prop::collection::vec(prop::collection::vec((1..=n as i64, any::<bool>()).prop_map(|(g, s)| if s { -g } else { g }), 1..7), 0..(n + 6)), recipe(4)).prop_map(
            move |(rels, (twist, order, gen_swaps, gen_flip, extra))| Pres { nr_gens: n, rels, twist, order, gen_swaps, gen_flip, extra },
        )
    })
}

pub fn run(ctx: &mut Ctx) {
    let t = ctx.tier;
    ctx.rule = "exhaustive tiny relation matrices plus proptest-generated matrices (iid, planted invariant factors scrambled by unimodular operations, rank-deficient) realised as relator words with shuffled letters, and sparse presentations with up to 40 generators; oracle = Smith normal form over BigInt (elimination, cross-checked against determinantal divisors); every case also carries a recipe for an equivalent presentation (reorder/invert/rotate/conjugate relators, rename/invert generators, append products)".into();
    ctx.assume("relators only use generators 1..nr_gens (caller precondition)");
    ctx.assume("isize overflow panics inside the elimination are discards (machine integers); none is expected at these sizes");
    crate::props::run_regressions(ctx, "C14");

    ctx.layer("exhaustive");
    // all 2x2, 2x3 and 3x2 matrices with entries in -2..=2 and all 3x3 with entries in -1..=1
    for &(r, n, lo, hi) in &[(1usize, 1usize, -4i64, 4i64), (1, 3, -2, 2), (2, 2, -3, 3), (2, 3, -2, 2), (3, 2, -2, 2), (3, 3, -1, 1), (2, 4, -2, 2), (4, 2, -2, 2), (3, 3, -2, 2)] {
        let base = (hi - lo + 1) as u64;
        let total = base.pow((r * n) as u32);
        ctx.run_par_indexed(
            &SUB_PRES,
            total,
            |mut idx| {
                let mut m = vec![vec![0i64; n]; r];
                for i in 0..r {
                    for j in 0..n {
                        m[i][j] = lo + (idx % base) as i64;
                        idx /= base;
                    }
                }
                let rels = m.iter().map(|row| word_from_row(row, &[1])).collect();
                Some(Pres { nr_gens: n, rels, twist: vec![(1, true, 1)], order: vec![(0, 1)], gen_swaps: vec![(0, 1)], gen_flip: 2, extra: vec![(0, 1, true)] })
            },
            Some("all 1x1 (|x|<=4), 1x3, 2x3, 3x2 (|x|<=2), 2x2 (|x|<=3) and 3x3, 2x4, 4x2 (|x|<=2) relation matrices"),
        );
    }
    ctx.layer("random");
    ctx.run_prop(&SUB_PRES, matrix_case, t.pick(600_000, 20_000_000));
    ctx.run_prop(&SUB_PRES, sparse_case, t.pick(10_000, 600_000));
    ctx.layer("dsymbol-presentations");
    ctx.run_prop(&SUB_PRES, dsymbol_presentation, t.pick(6_000, 300_000));
}

/// presentations as they occur in the crate: fundamental groups of random D-symbols (the crate's own
/// presentation and the harness's textbook one) and stabiliser presentations of their low-index tables
fn dsymbol_presentation() -> impl Strategy<Value = Pres> {
    use crate::gen::dsyms::random_symbol;
    use crate::oracle::fg::own_fundamental_group;
    (prop_oneof![random_symbol(2, 2..=40), random_symbol(3, 2..=30)], 0u8..3, recipe(4)).prop_filter_map("presentation available", |(x, which, (twist, order, gen_swaps, gen_flip, extra))| {
        let (n, rels): (usize, Vec<Vec<i64>>) = match which {
            0 => {
                let o = own_fundamental_group(&x);
                (o.pres.nr_gens, o.pres.rels)
            }
            1 => {
                let fg = guarded(|| rust_dsymbols::fundamental_group::fundamental_group(&x.to_partial())).ok()?;
                (fg.nr_generators(), fg.relators.iter().map(|w| w.iter().map(|&l| l as i64).collect()).collect())
            }
            _ => {
                // stabiliser of row 0 in the first non-trivial low-index table of the crate's presentation
                let fg = guarded(|| rust_dsymbols::fundamental_group::fundamental_group(&x.to_partial())).ok()?;
                if fg.nr_generators() > 6 || fg.relators.iter().any(|w| w.len() == 0) {
                    return None;
                }
                let t = guarded(|| rust_dsymbols::fpgroups::cosets::coset_tables(fg.nr_generators(), &fg.relators, 3).filter(|t| t.len() > 1).next()).ok()??;
                let (g, r) = guarded(|| rust_dsymbols::fpgroups::stabilizer::stabilizer(0, fg.relators.clone(), &t)).ok()?;
                (g.len(), r.iter().map(|w| w.iter().map(|&l| l as i64).collect()).collect())
            }
        };
        if n == 0 || n > 120 {
            return None;
        }
        Some(Pres { nr_gens: n, rels, twist, order, gen_swaps, gen_flip, extra })
    })
}

pub fn replay(ctx: &mut Ctx, sub: &str, case: &Value) -> Option<Result<(), String>> {
    Some(match sub {
        "invariants" => ctx.run_one(&SUB_PRES, &Pres::decode(case)?),
        _ => return None,
    })
}
