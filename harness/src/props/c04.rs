//! C04 — minimal image is the unique smallest quotient; automorphisms and morphisms are exact
use crate::ensure;
use crate::gen::covers::*;
use crate::gen::dsets::dsets_up_to;
use crate::gen::dsyms::*;
use crate::model::*;
use crate::oracle::iso::*;
use crate::runner::*;
use crate::util::*;
use proptest::prelude::*;
use rust_dsymbols::derived::{minimal_image, oriented_cover};
use rust_dsymbols::dsets::DSet;
use serde_json::{json, Value};
use std::collections::BTreeSet;

#[derive(Clone, Debug, Hash)]
pub struct MinCase {
    pub ds: DS,
    /// also test covers with this many sheets (0 = none), picking the cover class by this index
    pub sheets: usize,
    pub pick: u32,
}

impl Case for MinCase {
    fn encode(&self) -> Value {
        json!({"symbol": self.ds.encode(), "sheets": self.sheets, "pick": self.pick})
    }
    fn decode(v: &Value) -> Option<Self> {
        Some(MinCase { ds: DS::decode(v.get("symbol")?)?, sheets: v.get("sheets")?.as_u64()? as usize, pick: v.get("pick")?.as_u64()? as u32 })
    }
    fn weight(&self) -> usize {
        self.ds.size
    }
    fn hash64(&self) -> u64 {
        h64(self)
    }
}

fn crate_min(ds: &DS, simple: bool) -> DS {
    if simple {
        DS::from_dsym(&minimal_image(&ds.to_simple()))
    } else {
        DS::from_dsym(&minimal_image(&ds.to_partial()))
    }
}

/// everything the property says about one symbol and its minimal image
fn check_one(x: &DS, obs: &mut Obs) -> Result<DS, String> {
    let (c, _) = coarsest_congruence(x);
    let mi = crate_min(x, false);
    ensure!(mi.is_complete() && mi.ops_are_involutions() && mi.v_consistent() && mi.is_connected(), "minimal_image({}) = {} is not a connected complete symbol", x.text(), mi.text());
    ensure!(mi.size == c, "minimal_image({}) has {} chambers, the coarsest degree-respecting congruence has {} classes", x.text(), mi.size, c);
    let is_min = x.to_partial().is_minimal();
    ensure!(is_min == (c == x.size), "is_minimal({}) = {} but the coarsest congruence has {} classes on {} chambers", x.text(), is_min, c, x.size);
    ensure!(x.to_simple().is_minimal() == is_min, "is_minimal differs between representations");
    // a morphism x -> mi exists
    let mor = (1..=mi.size).find_map(|e| morphism(x, &mi, e, true));
    ensure!(mor.is_some(), "no operation-commuting, degree-preserving map from {} onto its minimal image {}", x.text(), mi.text());
    let img: BTreeSet<usize> = mor.unwrap()[1..].iter().cloned().collect();
    ensure!(img.len() == mi.size, "the map onto the minimal image is not surjective");
    // no proper quotient of the image
    let (c2, _) = coarsest_congruence(&mi);
    ensure!(c2 == mi.size, "minimal image {} still has a proper quotient ({} classes)", mi.text(), c2);
    ensure!(mi.to_partial().is_minimal(), "is_minimal(minimal_image(x)) is false for x = {}", x.text());
    let ms = crate_min(x, true);
    ensure!(is_isomorphic(&ms, &mi), "minimal image differs between representations");
    obs.classify(c < x.size, "has a proper quotient");
    Ok(mi)
}

fn check_min(c: &MinCase, obs: &mut Obs) -> Result<(), String> {
    let x = &c.ds;
    ensure!(x.is_complete() && x.ops_are_involutions() && x.v_consistent() && x.is_connected() && x.commutes(), "harness: case is not a connected complete D-symbol");
    let mi = check_one(x, obs)?;
    let (cc, _) = coarsest_congruence(x);
    let mut nontrivial = cc < x.size;
    // oriented cover (crate construction, validated by the harness as a covering first)
    let oc = DS::from_dsym(&oriented_cover(&x.to_partial()));
    if check_projection(x, &oc).is_ok() && oc.is_connected() {
        let mo = crate_min(&oc, false);
        ensure!(is_isomorphic(&mo, &mi), "the oriented cover of {} has minimal image {}, the symbol itself {}", x.text(), mo.text(), mi.text());
        nontrivial |= oc.size > x.size;
    }
    // harness-built covers
    if c.sheets >= 2 {
        let f = frame(x);
        match cover_classes(x, &f, c.sheets, 300_000) {
            None => obs.class("cover search over budget"),
            Some(classes) if classes.is_empty() => obs.class("no connected cover with that many sheets"),
            Some(classes) => {
                let (_, volt) = &classes[pick_index(c.pick, classes.len())];
                let y = cover_from_voltages(x, &f, volt, c.sheets);
                ensure!(check_projection(x, &y).is_ok() && y.is_connected() && y.commutes(), "harness: built cover is not a cover");
                let my = check_one(&y, &mut Obs::default())?;
                ensure!(is_isomorphic(&my, &mi), "{}-sheeted cover {} of {} has minimal image {}, the base has {}", c.sheets, y.text(), x.text(), my.text(), mi.text());
                obs.class("cover checked");
                nontrivial = true;
            }
        }
    }
    obs.nontrivial(nontrivial);
    obs.class(&format!("dim {}", x.dim));
    Ok(())
}

pub const SUB_MIN: Sub<MinCase> = Sub {
    name: "minimal_image",
    rule: "(connected symbol, sheet number, cover pick): size of minimal_image = number of classes of the coarsest degree-respecting congruence (own partition refinement), is_minimal <=> that number equals the size, a surjective morphism onto the image exists (own search), the image has no proper quotient, and the oriented cover and a harness-built cover have isomorphic minimal images; non-trivial = proper quotient exists or a cover with >= 2 sheets was checked",
    check: check_min,
    panic_discards: &[],
    journal: false,
};

// ---------------------------------------------------------------------------
// automorphisms and morphisms

#[derive(Clone, Debug, Hash)]
pub struct MorCase {
    pub x: DS,
    pub y: DS,
}

impl Case for MorCase {
    fn encode(&self) -> Value {
        json!({"x": self.x.encode(), "y": self.y.encode()})
    }
    fn decode(v: &Value) -> Option<Self> {
        Some(MorCase { x: DS::decode(v.get("x")?)?, y: DS::decode(v.get("y")?)? })
    }
    fn weight(&self) -> usize {
        self.x.size + self.y.size
    }
    fn hash64(&self) -> u64 {
        h64(self)
    }
}

fn is_valid_morphism(x: &DS, y: &DS, map: &[usize]) -> bool {
    map.len() == x.size + 1
        && (1..=x.size).all(|d| {
            map[d] >= 1
                && map[d] <= y.size
                && (0..=x.dim).all(|i| map[x.op[i][d]] == y.op[i][map[d]])
                && (0..x.dim).all(|i| x.m(i, d) == y.m(i, map[d]))
        })
}

fn check_mor(c: &MorCase, obs: &mut Obs) -> Result<(), String> {
    let (x, y) = (&c.x, &c.y);
    ensure!(x.dim == y.dim && x.is_connected() && y.is_connected(), "harness: bad morphism case");
    let (px, py) = (x.to_partial(), y.to_simple());
    // automorphisms of x as a set of maps
    let expect: BTreeSet<Vec<usize>> = automorphisms(x, true).into_iter().collect();
    let got_list = px.automorphisms();
    let got: BTreeSet<Vec<usize>> = got_list.iter().cloned().collect();
    ensure!(got.len() == got_list.len(), "automorphisms({}) lists a map twice", x.text());
    for m in &got {
        ensure!(is_valid_morphism(x, x, m), "automorphisms({}) contains {:?}, which does not commute with the operations or does not preserve the degrees", x.text(), &m[1..]);
    }
    ensure!(got == expect, "automorphisms({}) = {:?}, the operation-commuting degree-preserving bijections are {:?}", x.text(), got.iter().map(|m| &m[1..]).collect::<Vec<_>>(), expect.iter().map(|m| &m[1..]).collect::<Vec<_>>());
    let dset_autos = automorphisms(x, false).len();
    obs.classify(expect.len() > 1, "|Aut| > 1");
    obs.classify(dset_autos > expect.len(), "degrees break a symmetry of the D-set");
    // morphisms x -> y for every base image
    let mut some = 0;
    for e in 1..=y.size {
        let want = morphism(x, y, e, true);
        let got = px.morphism(&py, e);
        match (&want, &got) {
            (Some(w), Some(g)) => {
                ensure!(is_valid_morphism(x, y, g), "morphism({} -> {}, 1 -> {}) returned {:?}, which is not a morphism", x.text(), y.text(), e, &g[1..]);
                ensure!(g == w, "morphism with base image {} is unique, but {:?} != {:?}", e, &g[1..], &w[1..]);
                some += 1;
            }
            (None, None) => {}
            (Some(_), None) => return Err(format!("morphism({} -> {}, 1 -> {}) = None although a morphism exists", x.text(), y.text(), e)),
            (None, Some(g)) => return Err(format!("morphism({} -> {}, 1 -> {}) = {:?}, but no operation-commuting degree-preserving map with that base image exists", x.text(), y.text(), e, &g[1..])),
        }
    }
    obs.classify(some > 0 && x != y, "morphism to another symbol exists");
    obs.nontrivial(expect.len() > 1 || dset_autos > expect.len() || (some > 0 && x != y));
    Ok(())
}

pub const SUB_MOR: Sub<MorCase> = Sub {
    name: "morphisms",
    rule: "(x, y) connected symbols of equal dimension: automorphisms(x) as a set equals the own brute-force automorphism set, and morphism(x, y, e) is Some(valid, unique map) iff own search finds one, for every base image e; non-trivial = |Aut| > 1, or the D-set has more automorphisms than the symbol, or a morphism onto a different symbol exists",
    check: check_mor,
    panic_discards: &[],
    journal: false,
};


/// the minimal-image clauses alone (no covers), for the high-volume degree grid
fn check_grid(c: &MinCase, obs: &mut Obs) -> Result<(), String> {
    let x = &c.ds;
    ensure!(x.is_complete() && x.ops_are_involutions() && x.v_consistent() && x.is_connected() && x.commutes(), "harness: case is not a connected complete D-symbol");
    let (cc, _) = coarsest_congruence(x);
    check_one(x, obs)?;
    let aut = x.to_partial().automorphisms();
    let own = crate::oracle::iso::automorphisms(x, true);
    ensure!(aut.len() == own.len(), "automorphisms({}) lists {} maps, there are {} operation-commuting degree-preserving self-bijections", x.text(), aut.len(), own.len());
    obs.nontrivial(cc < x.size || own.len() > 1);
    Ok(())
}

pub const SUB_GRID: Sub<MinCase> = Sub {
    name: "degree_grid",
    rule: "small 2D D-sets that fold as plain D-sets and have two or more orbits for both index pairs, with every combination of branching numbers from a wide range (1..72 and more) on two orbits of one index pair and a small range on the others: minimal image size, minimality test and number of automorphisms against partition refinement / brute force; two chambers are identified exactly when their whole degree vectors agree along the fold, whatever the numeric values; non-trivial = proper quotient or non-trivial automorphism",
    check: check_grid,
    panic_discards: &[],
    journal: false,
};

pub fn run(ctx: &mut Ctx) {
    let t = ctx.tier;
    ctx.rule = "all branching assignments (v <= 3, capped per D-set) on all connected D-sets of the brute-force enumeration, each with its oriented cover and harness-built 2- and 3-sheeted covers (brute force over voltage assignments); morphism cases: symbol -> itself, -> its minimal image, cover -> base, -> unrelated symbols of the same dimension; proptest-generated renumbered symbols and random symbols up to 40 chambers; oracles = partition refinement and BFS morphism extension with exhaustive verification".into();
    ctx.assume("connected symbols only");
    crate::props::run_regressions(ctx, "C04");

    ctx.layer("exhaustive");
    let dsets: Vec<DS> = { let mut v = dsets_up_to(2, t.pick(6, 8)); v.extend(dsets_up_to(3, t.pick(4, 6))); v.extend(dsets_up_to(4, t.pick(4, 5))); v.extend(dsets_up_to(5, t.pick(3, 4))); v };
    let mut syms: Vec<DS> = vec![];
    let mut complete = true;
    for ds in &dsets {
        let (s, all) = assignments(ds, 3, t.pick(81, 243));
        complete &= all;
        syms.extend(s);
    }
    let note = format!("all branching assignments v <= 3 on all {} connected D-sets (dim 2 size <= {}, dim 3 size <= {}){}", dsets.len(), t.pick(6, 8), t.pick(4, 6), if complete { "" } else { ", capped per D-set" });
    let cases: Vec<MinCase> = syms.iter().enumerate().map(|(k, s)| MinCase { ds: s.clone(), sheets: if s.size <= 4 { 2 + k % 2 } else { 2 * (k % 2) }, pick: (k as u32).wrapping_mul(2654435761) }).collect();
    ctx.run_par(&SUB_MIN, cases, if complete { Some(&note) } else { None });
    if !complete {
        ctx.note(note.clone());
    }
    // morphism cases
    let mut mor: Vec<MorCase> = vec![];
    for (k, s) in syms.iter().enumerate() {
        mor.push(MorCase { x: s.clone(), y: s.clone() });
        // onto the own quotient by the coarsest congruence (built by the harness, not by the crate)
        let (c, block) = coarsest_congruence(s);
        if c < s.size {
            let mut q = DS::new(s.dim, c);
            for d in 1..=s.size {
                for i in 0..=s.dim {
                    q.op[i][block[d] + 1] = block[s.op[i][d]] + 1;
                }
            }
            for d in 1..=s.size {
                for i in 0..s.dim {
                    let b = block[d] + 1;
                    let r = q.r(i, i + 1, b);
                    q.v[i][b] = s.m(i, d) / r;
                }
            }
            mor.push(MorCase { x: s.clone(), y: q });
        }
        // an unrelated symbol of the same dimension
        let other = &syms[(k * 7919 + 13) % syms.len()];
        if other.dim == s.dim {
            mor.push(MorCase { x: s.clone(), y: other.clone() });
        }
    }
    ctx.run_par(&SUB_MOR, mor, None);

    // degree grid: wide ranges of branching numbers on D-sets whose symmetry allows folding
    ctx.layer("degree-grid");
    {
        let big = t.pick(72usize, 130usize);
        let small = 4usize;
        let mut plans: Vec<(DS, Vec<Vec<(usize, usize)>>, usize)> = vec![];
        for ds in dsets_up_to(2, t.pick(6, 7)) {
            let reps: Vec<Vec<(usize, usize)>> = (0..2).map(|i| (1..=ds.size).filter(|&d| ds.orbit2(i, i + 1, d)[0] == d).map(|d| (i, d)).collect()).collect();
            if reps[0].len() < 2 || reps[1].len() < 2 || reps[0].len() + reps[1].len() > t.pick(5, 6) || coarsest_congruence(&ds.dset()).0 == ds.size {
                continue;
            }
            for wide in 0..2 {
                plans.push((ds.clone(), reps.clone(), wide));
            }
        }
        let per_plan: Vec<u64> = plans.iter().map(|(_, reps, wide)| (big as u64).pow(2) * 2u64.pow(reps[*wide].len() as u32 - 2) * (small as u64).pow(reps[1 - *wide].len() as u32)).collect();
        let total: u64 = per_plan.iter().sum();
        let note = format!("{} (D-set, wide index pair) plans: branching 1..={} on two orbits of the wide pair, 1..=2 on its others, 1..={} on the orbits of the other pair", plans.len(), big, small);
        ctx.run_par_indexed(
            &SUB_GRID,
            total,
            |mut idx| {
                let mut k = 0;
                while idx >= per_plan[k] {
                    idx -= per_plan[k];
                    k += 1;
                }
                let (ds, reps, wide) = &plans[k];
                let mut x = ds.clone();
                for (n, &(i, d)) in reps[*wide].iter().enumerate() {
                    let range = if n < 2 { big as u64 } else { 2 };
                    x.set_v(i, d, 1 + (idx % range) as usize);
                    idx /= range;
                }
                for &(i, d) in reps[1 - *wide].iter() {
                    x.set_v(i, d, 1 + (idx % small as u64) as usize);
                    idx /= small as u64;
                }
                Some(MinCase { ds: x, sheets: 0, pick: 0 })
            },
            Some(&note),
        );
    }
    ctx.layer("random");
    let n = t.pick(40_000u32, 2_000_000u32);
    let pool = std::sync::Arc::new(dsets);
    {
        let pool = pool.clone();
        ctx.run_prop(&SUB_MIN, move || (pooled_symbol(pool.clone()), 0usize..=3, any::<u32>()).prop_map(|(ds, k, pick)| MinCase { sheets: if ds.size <= 6 && k >= 2 { k } else { 0 }, ds, pick }), n);
    }
    ctx.run_prop(&SUB_MIN, || prop_oneof![random_symbol(2, 6..=40), random_symbol(3, 5..=40), random_symbol(4, 4..=40), random_symbol(5, 4..=30)].prop_map(|ds| MinCase { ds, sheets: 0, pick: 0 }), n / 4);
    // large symbols: random ones (mostly minimal) and space-group quotients of the cubic / prism tilings
    // (covers with up to thousands of chambers of a symbol with 1..3 chambers), renumbered
    ctx.layer("large");
    ctx.run_prop(&SUB_MIN, || prop_oneof![random_symbol(2, 100..=400), random_symbol(3, 100..=400)].prop_map(|ds| MinCase { ds, sheets: 0, pick: 0 }), t.pick(2_000, 30_000));
    let max_n = t.pick(3usize, 4usize);
    ctx.run_prop(&SUB_MIN, move || crate::props::c17::cubic_strategy(max_n).prop_map(|c| MinCase { ds: c.ds.renumbered(&perm_from_swaps(c.ds.size, &c.swaps)), sheets: 0, pick: 0 }), t.pick(2_000, 30_000));
    ctx.layer("random");
    {
        // cover -> base morphisms with harness-built covers
        let pool = pool.clone();
        ctx.run_prop(
            &SUB_MOR,
            move || {
                (pooled_symbol(pool.clone()), 2usize..=3, any::<u32>(), prop::collection::vec((any::<u32>(), any::<u32>()), 0..6)).prop_filter_map("cover exists", |(x, k, pick, sw)| {
                    if x.size > 6 {
                        return Some(MorCase { x: x.clone(), y: x });
                    }
                    let f = frame(&x);
                    let classes = cover_classes(&x, &f, k, 200_000)?;
                    if classes.is_empty() {
                        return Some(MorCase { x: x.clone(), y: x });
                    }
                    let y = cover_from_voltages(&x, &f, &classes[pick_index(pick, classes.len())].1, k);
                    let y = y.renumbered(&perm_from_swaps(y.size, &sw));
                    Some(MorCase { x: y, y: x })
                })
            },
            n / 2,
        );
    }
}

pub fn replay(ctx: &mut Ctx, sub: &str, case: &Value) -> Option<Result<(), String>> {
    Some(match sub {
        "minimal_image" => ctx.run_one(&SUB_MIN, &MinCase::decode(case)?),
        "morphisms" => ctx.run_one(&SUB_MOR, &MorCase::decode(case)?),
        "degree_grid" => ctx.run_one(&SUB_GRID, &MinCase::decode(case)?),
        _ => return None,
    })
}
