//! C13 — stabiliser presentation, core and intersection tables are exact
use crate::ensure;
use crate::gen::groups::*;
use crate::oracle::groups::*;
use crate::oracle::snf::abelianization;
use crate::props::c11::{fw, read_table, short_words};
use crate::runner::*;
use crate::util::*;
use proptest::prelude::*;
use rust_dsymbols::fpgroups::cosets::{core_table, coset_tables, intersection_table, CosetTable};
use rust_dsymbols::fpgroups::free_words::FreeWord;
use rust_dsymbols::fpgroups::stabilizer::stabilizer;
use serde_json::{json, Value};
use std::collections::{BTreeSet, VecDeque};
use std::sync::Arc;

#[derive(Clone, Debug, Hash)]
pub struct StabCase {
    pub name: String,
    pub nr_gens: usize,
    pub rels: Vec<Word>,
    /// literature order of G, 0 = infinite
    pub order: u64,
    /// forward images of the table: table[row][g-1]
    pub table: Vec<Vec<usize>>,
    /// second table for the intersection (may be empty)
    pub table2: Vec<Vec<usize>>,
    pub base: usize,
    pub words: Vec<Word>,
    /// row renumberings (as transpositions) of `table` that the crate's table OBJECT held, and was queried
    /// with, before it was overwritten with `table` through the public set(); empty = a fresh object
    pub history: Vec<Vec<(u32, u32)>>,
}

impl Case for StabCase {
    fn encode(&self) -> Value {
        json!({"group": self.name, "nr_gens": self.nr_gens, "relators": self.rels, "order": self.order, "table": self.table, "table2": self.table2, "base": self.base, "words": self.words, "object_history": self.history.iter().map(|h| h.iter().map(|s| json!([s.0, s.1])).collect::<Vec<_>>()).collect::<Vec<_>>()})
    }
    fn decode(v: &Value) -> Option<Self> {
        let tab = |k: &str| -> Option<Vec<Vec<usize>>> { v.get(k)?.as_array()?.iter().map(dec_usizes).collect() };
        Some(StabCase {
            name: v.get("group")?.as_str()?.to_string(),
            nr_gens: v.get("nr_gens")?.as_u64()? as usize,
            rels: dec_words(v.get("relators")?)?,
            order: v.get("order")?.as_u64()?,
            table: tab("table")?,
            table2: tab("table2")?,
            base: v.get("base")?.as_u64()? as usize,
            words: dec_words(v.get("words")?)?,
            history: v.get("object_history").and_then(|h| h.as_array()).map(|hs| hs.iter().map(|h| h.as_array().map(|a| a.iter().filter_map(|p| Some((p.get(0)?.as_u64()? as u32, p.get(1)?.as_u64()? as u32))).collect()).unwrap_or_default()).collect()).unwrap_or_default(),
        })
    }
    fn weight(&self) -> usize {
        self.table.len() * 10 + self.table2.len()
    }
    fn hash64(&self) -> u64 {
        h64(self)
    }
}

pub fn to_crate_table(t: &Table) -> CosetTable {
    let mut ct = CosetTable::new(t.nr_gens);
    for r in 0..t.len() {
        for g in 1..=t.nr_gens as isize {
            ct.set(r, g, t.fwd[r][(g - 1) as usize]);
            ct.set(r, -g, t.bwd[r][(g - 1) as usize]);
        }
    }
    ct
}

/// a crate table object that held (and was queried with) renumbered copies of the table before
pub fn to_crate_table_with_history(t: &Table, history: &[Vec<(u32, u32)>], rels: &[FreeWord]) -> CosetTable {
    if history.is_empty() {
        return to_crate_table(t);
    }
    let mut ct = CosetTable::new(t.nr_gens);
    for h in history {
        let prev = crate::props::c05::renumber_rows(t, h);
        crate::props::c05::install_table(&mut ct, &prev);
        // use the object the way callers do; results (and panics) are judged on fresh objects elsewhere
        let _ = guarded(|| {
            let _ = core_table(&ct);
            let _ = intersection_table(&ct, &ct);
            let _ = stabilizer(0, rels.to_vec(), &ct);
            let _ = rust_dsymbols::fpgroups::cosets::coset_representative(&ct);
        });
    }
    crate::props::c05::install_table(&mut ct, t);
    ct
}

fn substitute(w: &[i64], gens: &[Word]) -> Word {
    let mut out = vec![];
    for &l in w {
        let g = &gens[(l.abs() - 1) as usize];
        if l > 0 {
            out.extend(g.iter());
        } else {
            out.extend(inv_word(g));
        }
    }
    free_reduce(&out)
}

fn lw(w: &FreeWord) -> Word {
    w.iter().map(|&x| x as i64).collect()
}

fn fixes_all(t: &Table, w: &[i64]) -> bool {
    (0..t.len()).all(|r| t.trace(r, w) == r)
}

fn check_stab(c: &StabCase, obs: &mut Obs) -> Result<(), String> {
    let t = Table::from_forward(c.nr_gens, c.table.clone()).ok_or("harness: table is not a permutation table")?;
    ensure!(t.is_transitive() && t.relators_close(&c.rels).is_none() && c.base < t.len(), "harness: table is not a valid transitive action of the group");
    ensure!(c.rels.iter().all(|w| !free_reduce(w).is_empty()), "harness: empty relator");
    let n = t.len();
    let relw: Vec<FreeWord> = c.rels.iter().map(|w| fw(w)).collect();
    let ct = to_crate_table_with_history(&t, &c.history, &relw);
    obs.classify(!c.history.is_empty(), "table object overwritten through set() after earlier queries");

    // ---- stabiliser
    let (sg, sr) = stabilizer(c.base, relw.clone(), &ct);
    let gens: Vec<Word> = sg.iter().map(lw).collect();
    let srels: Vec<Word> = sr.iter().map(lw).collect();
    for (k, w) in gens.iter().enumerate() {
        ensure!(w.iter().all(|&l| l != 0 && l.unsigned_abs() as usize <= c.nr_gens), "stabiliser generator #{} = {:?} uses a letter that is not a generator of G", k + 1, w);
        let e = t.trace(c.base, w);
        ensure!(e == c.base, "stabiliser generator #{} = {:?} moves the base row {} to {}", k + 1, w, c.base, e);
    }
    for w in &srels {
        ensure!(w.iter().all(|&l| l != 0 && l.unsigned_abs() as usize <= gens.len()), "stabiliser relator {:?} uses a letter beyond the {} returned generators", w, gens.len());
    }
    // the generators generate the full point stabiliser: its coset table is the same based action
    match todd_coxeter(c.nr_gens, &c.rels, &gens, 60_000) {
        None => obs.class("index check: reference enumeration over the row limit (skipped)"),
        Some(own) => {
            ensure!(own.is_transitive() && own.relators_close(&c.rels).is_none() && gens.iter().all(|w| own.trace(0, w) == 0), "harness: the reference Todd-Coxeter table is not a valid coset table");
            ensure!(own.len() == n, "the returned generators generate a subgroup of index {} (reference Todd-Coxeter), the point stabiliser has index {}", own.len(), n);
            ensure!(own.based_code(0) == t.based_code(c.base), "the subgroup generated by the returned generators is not the stabiliser of row {} (different based action)", c.base);
        }
    }
    // every returned relator is trivial in G once the generators are substituted
    let reg = if c.order > 0 && c.order <= 5000 { todd_coxeter(c.nr_gens, &c.rels, &[], 20_000) } else { None };
    if let Some(reg) = &reg {
        ensure!(reg.len() as u64 == c.order, "harness: regular representation has {} rows, literature order {}", reg.len(), c.order);
    }
    for w in &srels {
        let s = substitute(w, &gens);
        match &reg {
            Some(reg) => ensure!(reg.trace(0, &s) == 0, "stabiliser relator {:?} is not trivial in G after substituting the generators ({:?})", w, s),
            None => ensure!(fixes_all(&t, &s), "stabiliser relator {:?} does not even act trivially on the given table after substitution", w),
        }
    }
    // presented group against the textbook Reidemeister-Schreier presentation
    let rs = reidemeister_schreier(&t, &c.rels, c.base);
    let ab_crate = abelianization(gens.len(), &srels);
    let ab_rs = abelianization(rs.gens.len(), &rs.rels);
    ensure!(ab_crate == ab_rs, "abelianisation of the returned presentation is {:?}, of the Reidemeister-Schreier presentation {:?}", ab_crate, ab_rs);
    if c.order > 0 {
        let want = c.order / n as u64;
        if want <= 3000 {
            match todd_coxeter(gens.len(), &srels, &[], 30_000) {
                Some(h) => ensure!(h.len() as u64 == want, "the returned presentation defines a group of order {}, the stabiliser has order |G| / rows = {}", h.len(), want),
                None => obs.class("order check over the row limit (skipped)"),
            }
        }
    } else {
        // low-index profile on simplified presentations
        let p1 = simplify_presentation(&Pres { nr_gens: gens.len(), rels: srels.clone() });
        let p2 = simplify_presentation(&Pres { nr_gens: rs.gens.len(), rels: rs.rels.clone() });
        if p1.nr_gens <= 4 && p2.nr_gens <= 4 {
            if let (Some(a), Some(b)) = (subgroup_class_counts(&p1, 3, 200_000), subgroup_class_counts(&p2, 3, 200_000)) {
                ensure!(a == b, "numbers of subgroup classes of index 1..3: returned presentation {:?}, Reidemeister-Schreier presentation {:?}", a, b);
                obs.class("low-index profile compared");
            }
        }
    }

    // ---- core
    let core = read_table(&core_table(&ct), c.nr_gens).map_err(|e| format!("core table: {}", e))?;
    ensure!(core.is_transitive(), "core table is not transitive");
    if let Some((k, r)) = core.relators_close(&c.rels) {
        return Err(format!("core table: relator {:?} does not close at row {}", c.rels[k], r));
    }
    match t.perm_group_order(100_000) {
        Some(ord) => ensure!(core.len() == ord, "core table has {} rows, the permutation group generated by the action has order {}", core.len(), ord),
        None => obs.class("permutation group too large for the closure (skipped)"),
    }
    // regular: every point stabiliser is trivial, i.e. all based codes agree and a word fixing one row fixes all
    // test words: given ones, all short words, and kernel words u^order(u)
    let mut words: Vec<Word> = c.words.clone();
    words.extend(short_words(c.nr_gens, if c.nr_gens <= 3 { 3 } else { 2 }));
    let kernel: Vec<Word> = c
        .words
        .iter()
        .map(|u| {
            // order of u in the permutation group of t
            let mut k = 1;
            let mut w = u.clone();
            while !fixes_all(&t, &w) && k < 5000 {
                w.extend(u.iter());
                k += 1;
            }
            w
        })
        .collect();
    words.extend(kernel);
    for w in &words {
        let in_kernel = fixes_all(&t, w);
        let fixes0 = core.trace(0, w) == 0;
        ensure!(in_kernel == fixes0, "word {:?} {} all rows of the table but {} row 0 of the core table", w, if in_kernel { "fixes" } else { "does not fix" }, if fixes0 { "fixes" } else { "moves" });
        if fixes0 {
            ensure!(fixes_all(&core, w), "core table is not a regular action: {:?} fixes row 0 but not every row", w);
        }
    }

    // ---- intersection
    if !c.table2.is_empty() {
        let t2 = Table::from_forward(c.nr_gens, c.table2.clone()).ok_or("harness: second table is not a permutation table")?;
        ensure!(t2.is_transitive() && t2.relators_close(&c.rels).is_none(), "harness: second table invalid");
        let it = read_table(&intersection_table(&ct, &to_crate_table_with_history(&t2, &c.history, &relw)), c.nr_gens).map_err(|e| format!("intersection table: {}", e))?;
        ensure!(it.is_transitive(), "intersection table is not transitive");
        if let Some((k, r)) = it.relators_close(&c.rels) {
            return Err(format!("intersection table: relator {:?} does not close at row {}", c.rels[k], r));
        }
        // orbit of (0,0) in the product action
        let mut seen = BTreeSet::from([(0usize, 0usize)]);
        let mut q = VecDeque::from([(0usize, 0usize)]);
        while let Some((a, b)) = q.pop_front() {
            for g in 1..=c.nr_gens as i64 {
                for h in [g, -g] {
                    let nx = (t.step(a, h), t2.step(b, h));
                    if seen.insert(nx) {
                        q.push_back(nx);
                    }
                }
            }
        }
        ensure!(it.len() == seen.len(), "intersection table has {} rows, the orbit of the pair of base rows in the product action has {}", it.len(), seen.len());
        for w in &words {
            let both = t.trace(0, w) == 0 && t2.trace(0, w) == 0;
            let f = it.trace(0, w) == 0;
            ensure!(both == f, "word {:?}: fixes row 0 of both tables = {}, fixes row 0 of the intersection table = {}", w, both, f);
        }
        obs.class("intersection checked");
    }

    let nonnormal = (1..n).any(|b| t.based_code(b) != t.based_code(0));
    obs.nontrivial((nonnormal && n >= 3) || c.base != 0);
    obs.classify(nonnormal, "non-normal table");
    obs.classify(c.base != 0, "base row != 0");
    obs.classify(c.order == 0, "infinite group");
    obs.classify(c.rels.iter().flatten().map(|l| l.abs()).collect::<BTreeSet<_>>().len() < c.nr_gens, "a generator occurs in no relator");
    Ok(())
}

pub const SUB_STAB: Sub<StabCase> = Sub {
    name: "stabilizer_core_intersection",
    rule: "(presentation, valid transitive table, base row, optional second table, test words): stabiliser generators fix the base row and generate a subgroup whose reference coset table is the same based action; returned relators are trivial in G after substitution; presented group has the order |G|/rows (finite) or the abelianisation and index <= 3 profile of the own Reidemeister-Schreier presentation; core table = regular action of order |<columns>| with word-in-kernel <=> fixes row 0; intersection table = orbit of (0,0) in the product action; non-trivial = non-normal table with >= 3 rows, or base row != 0",
    check: check_stab,
    panic_discards: &["Reached coset table limit"],
    journal: false,
};

// ---------------------------------------------------------------------------

fn tables_of(g: &Named, k: usize) -> Vec<Table> {
    let rels: Vec<FreeWord> = g.pres.rels.iter().map(|w| fw(w)).collect();
    guarded(|| coset_tables(g.pres.nr_gens, &rels, k).filter_map(|ct| read_table(&ct, g.pres.nr_gens).ok()).filter(|t| t.is_transitive() && t.relators_close(&g.pres.rels).is_none()).collect::<Vec<_>>()).unwrap_or_default()
}

fn word_strategy(n: usize) -> impl Strategy<Value = Vec<Word>> {
    prop::collection::vec(prop::collection::vec((1..=n.max(1) as i64, any::<bool>()).prop_map(|(l, s)| if s { -l } else { l }), 1..=12), 0..4)
}

pub fn run(ctx: &mut Ctx) {
    let t = ctx.tier;
    ctx.rule = "tables from the low-index enumeration (validated by the harness before use) of every corpus group, every base row, pairs of tables of one group for the intersection, test words = all short reduced words + proptest-generated words of length <= 12 + their kernel powers; oracles = reference Todd-Coxeter, textbook Reidemeister-Schreier, Smith normal form, brute-force subgroup class counts, own permutation-group closure and product-action orbit".into();
    ctx.assume("tables are valid transitive actions satisfying the relators (re-validated by the harness); relators are non-empty");
    ctx.assume("group isomorphism is decided through invariants: order when finite, abelianisation and index <= 3 subgroup-class profile otherwise");
    crate::props::run_regressions(ctx, "C13");

    ctx.layer("exhaustive");
    let mut cases = vec![];
    let kmax = t.pick(7, 8);
    for g in infinite_groups().into_iter().chain(finite_groups(false)) {
        if g.pres.rels.iter().any(|w| free_reduce(w).is_empty()) || g.pres.nr_gens > 4 {
            continue;
        }
        let k = if g.pres.nr_gens >= 3 { kmax.min(4) } else { kmax };
        let tabs = tables_of(&g, k);
        let cap = t.pick(100, 600);
        let step = (tabs.len() / cap).max(1);
        for (i, tab) in tabs.iter().enumerate().filter(|(i, _)| i % step == 0) {
            for base in 0..tab.len() {
                let other = &tabs[(i * 7 + base * 3 + 1) % tabs.len()];
                cases.push(StabCase {
                    name: g.name.clone(),
                    nr_gens: g.pres.nr_gens,
                    rels: g.pres.rels.clone(),
                    order: g.order.unwrap_or(0),
                    table: tab.fwd.clone(),
                    table2: if base == 0 && other.len() <= 12 { other.fwd.clone() } else { vec![] },
                    base,
                    words: vec![],
                    history: if (i + base) % 3 == 0 { vec![vec![(0, u32::MAX)], vec![(1 << 30, 3 << 30)]] } else { vec![] },
                });
            }
        }
    }
    // every second case with its rows renumbered (fixed pseudo-random permutation per case)
    let cases: Vec<StabCase> = cases
        .into_iter()
        .enumerate()
        .map(|(k, c)| {
            if k % 2 == 1 && c.table.len() >= 3 {
                let sw: Vec<(u32, u32)> = (0..4u32).map(|j| ((k as u32).wrapping_mul(2654435761).rotate_left(j * 7), (k as u32 ^ 0x5bd1e995).wrapping_mul(40503).rotate_left(j * 11))).collect();
                let h = c.history.clone();
                renumbered_case(&c, &sw, h)
            } else {
                c
            }
        })
        .collect();
    let n = cases.len();
    ctx.run_par(&SUB_STAB, cases.clone(), Some(&format!("{} (table, base row) cases: tables of index <= {} (<= 4 for >= 3 generators) of every corpus group with <= 4 generators (at most {} tables per group), every base row", n, kmax, t.pick(100, 600))));

    ctx.layer("random");
    let pool = Arc::new(cases);
    ctx.run_prop(
        &SUB_STAB,
        move || {
            let pool = pool.clone();
            (any::<u32>(), any::<u32>(), word_strategy(4)).prop_map(move |(k, k2, ws)| {
                let mut c = pool[pick_index(k, pool.len())].clone();
                // second table from another case of the same group
                let other = &pool[pick_index(k2, pool.len())];
                if other.name == c.name && other.table.len() <= 12 && c.table.len() <= 12 {
                    c.table2 = other.table.clone();
                }
                let n = c.nr_gens as i64;
                c.words = ws.into_iter().map(|w| w.into_iter().map(|l| { let a = (l.abs() - 1) % n.max(1) + 1; if l > 0 { a } else { -a } }).collect()).collect();
                c.history = vec![];
                c
            })
            .prop_flat_map(with_history)
        },
        t.pick(20_000, 60_000),
    );
    ctx.layer("random-presentations");
    ctx.run_prop(&SUB_STAB, || random_presentation_case().prop_flat_map(with_history), t.pick(4_000, 60_000));
    ctx.layer("imprimitive-actions");
    ctx.run_prop(&SUB_STAB, || imprimitive_case().prop_flat_map(with_history), t.pick(6_000, 100_000));
}

/// half of the cases get a table object with a history (0..=2 earlier renumbered tables); half of the cases
/// get their rows renumbered by a random permutation (a coset table is a transitive permutation
/// representation with a base row - nothing says that rows are numbered in the order in which a
/// breadth-first search from row 0 meets them)
fn with_history(c: StabCase) -> impl Strategy<Value = StabCase> {
    (prop::collection::vec(prop::collection::vec((any::<u32>(), any::<u32>()), 1..4), 0..=2), prop_oneof![Just(vec![]), prop::collection::vec((any::<u32>(), any::<u32>()), 1..8)]).prop_map(move |(history, renum)| renumbered_case(&c, &renum, history))
}

fn renumbered_case(c: &StabCase, renum: &[(u32, u32)], history: Vec<Vec<(u32, u32)>>) -> StabCase {
    if renum.is_empty() {
        return StabCase { history, ..c.clone() };
    }
    let re = |tab: &Vec<Vec<usize>>, salt: u32| -> Vec<Vec<usize>> {
        if tab.is_empty() {
            return vec![];
        }
        let sw: Vec<(u32, u32)> = renum.iter().map(|&(a, b)| (a ^ salt, b.wrapping_add(salt))).collect();
        match Table::from_forward(c.nr_gens, tab.clone()) {
            Some(t) => crate::props::c05::renumber_rows(&t, &sw).fwd,
            None => tab.clone(),
        }
    };
    StabCase { table: re(&c.table, 0), table2: re(&c.table2, 0x9E37), history, ..c.clone() }
}

/// a case on a random presentation: one of its low-index tables (validated), a base row, a second table
fn random_presentation_case() -> impl Strategy<Value = StabCase> {
    (crate::props::c11::random_presentation(3), any::<u32>(), any::<u32>(), any::<u32>(), word_strategy(3)).prop_filter_map("has a table", |((n, rels), pick, pick2, base, ws)| {
        if rels.is_empty() {
            return None;
        }
        let g = Named { name: format!("random presentation on {} generators", n), pres: Pres { nr_gens: n, rels: rels.clone() }, order: None };
        let tabs = tables_of(&g, if n >= 3 { 4 } else { 5 });
        if tabs.is_empty() || tabs.len() > 3000 {
            return None;
        }
        let tab = &tabs[pick_index(pick, tabs.len())];
        let other = &tabs[pick_index(pick2, tabs.len())];
        let words = ws.into_iter().map(|w| w.into_iter().map(|l| { let a = (l.abs() - 1) % n as i64 + 1; if l > 0 { a } else { -a } }).collect()).collect();
        Some(StabCase { name: g.name, nr_gens: n, rels, order: 0, table: tab.fwd.clone(), table2: other.fwd.clone(), base: pick_index(base, tab.len()), words, history: vec![] })
    })
}

/// Imprimitive actions of a free group on b x m >= 9 points (subgroups of S_b wr S_m of order <= 6000):
/// tables with more rows than the low-index layers reach, in which non-identity elements fix many
/// rows pointwise (the kernel of the action on the blocks), as valid transitive coset tables of F_g.
fn imprimitive_case() -> impl Strategy<Value = StabCase> {
    (
        prop::sample::select(vec![(2usize, 5usize), (2, 6), (2, 7), (2, 8), (3, 3), (3, 4), (3, 5), (4, 3), (4, 4), (5, 2), (6, 2)]),
        prop::collection::vec((0u8..4, prop::collection::vec(any::<u32>(), 8), any::<u32>()), 1..=2),
        any::<u32>(),
        word_strategy(3),
        any::<bool>(),
    )
        .prop_filter_map("transitive action of moderate order", |((b, m), extra, base, ws, with_second)| {
            let n = b * m;
            let idx = |blk: usize, pos: usize| blk * b + pos;
            // generator 1: the m-cycle on the blocks; generator 2: a b-cycle inside block 0; then the generated extras
            let mut gens: Vec<Vec<usize>> = vec![];
            gens.push((0..n).map(|x| idx((x / b + 1) % m, x % b)).collect());
            gens.push((0..n).map(|x| if x / b == 0 { idx(0, (x % b + 1) % b) } else { x }).collect());
            for (kind, inner, pick) in extra.iter() {
                let sigma: Vec<usize> = match kind {
                    0 => (0..m).collect(),
                    1 => (0..m).map(|k| if k == 0 { 1 % m } else if k == 1 % m { 0 } else { k }).collect(),
                    2 => (0..m).map(|k| (k + m - 1) % m).collect(),
                    _ => {
                        let mut p: Vec<usize> = (0..m).collect();
                        let mut h = *pick as usize;
                        for i in (1..m).rev() {
                            p.swap(i, h % (i + 1));
                            h /= i + 1;
                        }
                        p
                    }
                };
                // inside block k: a rotation by inner[k] % b or, for odd codes, a reflection
                let g: Vec<usize> = (0..n)
                    .map(|x| {
                        let (k, pos) = (x / b, x % b);
                        let code = inner[k % inner.len()] as usize;
                        let q = if code % 4 == 3 { (b - pos + code / 4) % b } else if code % 4 == 0 { (pos + code / 4) % b } else { pos };
                        idx(sigma[k], q)
                    })
                    .collect();
                gens.push(g);
            }
            let g = gens.len();
            let fwd: Vec<Vec<usize>> = (0..n).map(|x| gens.iter().map(|p| p[x]).collect()).collect();
            let t = Table::from_forward(g, fwd.clone())?;
            if !t.is_transitive() || t.perm_group_order(6000).is_none() {
                return None;
            }
            // a second action for the intersection: the action on the blocks
            let table2: Vec<Vec<usize>> = if with_second { (0..m).map(|k| gens.iter().map(|p| p[idx(k, 0)] / b).collect()).collect() } else { vec![] };
            let words = ws.into_iter().map(|w| w.into_iter().map(|l| { let a = (l.abs() - 1) % g as i64 + 1; if l > 0 { a } else { -a } }).collect()).collect();
            Some(StabCase { name: format!("free group on {} generators acting imprimitively on {} blocks of {} points", g, m, b), nr_gens: g, rels: vec![], order: 0, table: fwd, table2, base: pick_index(base, n), words, history: vec![] })
        })
}

pub fn replay(ctx: &mut Ctx, sub: &str, case: &Value) -> Option<Result<(), String>> {
    Some(match sub {
        "stabilizer_core_intersection" => ctx.run_one(&SUB_STAB, &StabCase::decode(case)?),
        _ => return None,
    })
}
