//! one module per property
use crate::runner::*;
use serde_json::Value;

macro_rules! properties {
    ($($id:literal => $m:ident),* $(,)?) => {
        $(pub mod $m;)*
        pub const BUILT: &[&str] = &[$($id),*];
        pub fn static_id(id: &str) -> Option<&'static str> {
            BUILT.iter().find(|x| **x == id).copied()
        }
        pub fn run(ctx: &mut Ctx) -> bool {
            match ctx.prop {
                $($id => $m::run(ctx),)*
                _ => return false,
            }
            history::run(ctx);
            true
        }
        /// Replay one case; None = unknown sub-check or undecodable case.
        pub fn replay(ctx: &mut Ctx, sub: &str, case: &Value) -> Option<Result<(), String>> {
            let sub = sub.trim_start_matches("regress/");
            if sub == "call_history_generic" {
                return Some(ctx.run_one(&history::SUB_HIST, &<history::HistCase as Case>::decode(case)?));
            }
            match ctx.prop {
                $($id => $m::replay(ctx, sub, case),)*
                _ => None,
            }
        }
    };
}

pub mod history;

properties! {
    "C01" => c01,
    "C02" => c02,
    "C03" => c03,
    "C04" => c04,
    "C05" => c05,
    "C06" => c06,
    "C07" => c07,
    "C08" => c08,
    "C09" => c09,
    "C10" => c10,
    "C11" => c11,
    "C12" => c12,
    "C13" => c13,
    "C14" => c14,
    "C15" => c15,
    "C16" => c16,
    "C17" => c17,
    "C18" => c18,
    "C19" => c19,
    "C20" => c20,
}

/// Committed regression cases (/verif/corpus/regress/<id>/*.json), run first in every tier.
pub fn run_regressions(ctx: &mut Ctx, id: &str) {
    let dir = verif_root().join("corpus/regress").join(id);
    let mut files: Vec<_> = match std::fs::read_dir(&dir) {
        Ok(rd) => rd.filter_map(|e| e.ok().map(|e| e.path())).filter(|p| p.extension().map_or(false, |e| e == "json")).collect(),
        Err(_) => return,
    };
    files.sort();
    let mut n = 0;
    for f in files {
        let doc: Value = match std::fs::read_to_string(&f).ok().and_then(|t| serde_json::from_str(&t).ok()) {
            Some(d) => d,
            None => continue,
        };
        let sub = doc.get("subcheck").and_then(|s| s.as_str()).unwrap_or("").to_string();
        let case = doc.get("case").cloned().unwrap_or(Value::Null);
        match replay(ctx, &sub, &case) {
            Some(Ok(())) => n += 1,
            Some(Err(msg)) => {
                n += 1;
                ctx.report_regression(&sub, case, msg, &f);
            }
            None => ctx.note(format!("regression file {} could not be decoded", f.display())),
        }
    }
    ctx.regressions_run = n;
}
