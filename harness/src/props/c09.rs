//! C09 — the fundamental-group presentation presents the orbifold fundamental group
use crate::ensure;
use crate::gen::dsets::dsets_up_to;
use crate::gen::dsyms::*;
use crate::model::*;
use crate::oracle::fg::own_fundamental_group;
use crate::oracle::groups::*;
use crate::oracle::orb2;
use crate::oracle::snf::try_abelianization;
use crate::props::c11::fw;
use crate::runner::*;
use crate::util::*;
use num_rational::Rational64 as Q;
use num_traits::Signed;
use proptest::prelude::*;
use rust_dsymbols::fpgroups::cosets::coset_tables;
use rust_dsymbols::fpgroups::free_words::FreeWord;
use rust_dsymbols::fundamental_group::fundamental_group;
use serde_json::Value;
use std::collections::{BTreeMap, BTreeSet};

#[derive(Clone, Debug, Hash)]
pub struct FgCase(pub DS);

impl Case for FgCase {
    fn encode(&self) -> Value {
        self.0.encode()
    }
    fn decode(v: &Value) -> Option<Self> {
        Some(FgCase(DS::decode(v)?))
    }
    fn weight(&self) -> usize {
        self.0.size
    }
    fn hash64(&self) -> u64 {
        h64(self)
    }
}

fn lw(w: &FreeWord) -> Word {
    w.iter().map(|&x| x as i64).collect()
}

fn is_reduced(w: &[i64]) -> bool {
    w.iter().all(|&x| x != 0) && w.windows(2).all(|p| p[0] != -p[1])
}

/// branching number of the (i,j)-orbit through d in the model
fn v_of(ds: &DS, i: usize, j: usize, d: usize) -> usize {
    if i == j {
        1
    } else if j == i + 1 {
        ds.v[i][d]
    } else {
        2 / ds.r(i, j, d)
    }
}

/// the crate presentation as plain data, with all structural checks
pub struct CratePres {
    pub nr_gens: usize,
    pub rels: Vec<Word>,
    pub cones: Vec<(Word, usize)>,
    pub word_of: BTreeMap<(usize, usize), Word>,
}

pub fn crate_presentation(x: &DS, simple: bool) -> Result<CratePres, String> {
    let fg = if simple { fundamental_group(&x.to_simple()) } else { fundamental_group(&x.to_partial()) };
    let g = fg.nr_generators();
    let word_of: BTreeMap<(usize, usize), Word> = fg.edge_to_word.iter().map(|(&k, w)| (k, lw(w))).collect();
    // generators numbered 1..g, each carried by its own facet pair
    let mut pairs: BTreeSet<(usize, usize)> = BTreeSet::new();
    ensure!(fg.gen_to_edge.keys().cloned().collect::<Vec<_>>() == (1..=g).collect::<Vec<_>>(), "generators are not numbered 1..{}: {:?}", g, fg.gen_to_edge.keys().collect::<Vec<_>>());
    for (&k, &(d, i)) in &fg.gen_to_edge {
        ensure!(d >= 1 && d <= x.size && i <= x.dim, "generator {} is attached to ({}, {}), which is not a facet", k, d, i);
        let e = x.op[i][d];
        ensure!(pairs.insert((d.min(e), i)), "two generators are attached to the facet pair {{{}, {}}} of index {}", d, e, i);
        let w = word_of.get(&(d, i)).cloned().unwrap_or_default();
        ensure!(w == vec![k as i64] || (d == e && w == vec![-(k as i64)]), "generator {} is attached to facet ({}, {}) but that facet carries the word {:?}", k, d, i, w);
    }
    for (&(d, i), w) in &word_of {
        ensure!(d >= 1 && d <= x.size && i <= x.dim, "edge_to_word has the key ({}, {}), which is not a facet", d, i);
        ensure!(is_reduced(w), "edge word {:?} of facet ({}, {}) is not freely reduced", w, d, i);
        ensure!(w.iter().all(|l| l.unsigned_abs() as usize <= g), "edge word {:?} uses a generator beyond {}", w, g);
    }
    // the two sides of a non-mirror facet carry mutually inverse words
    for d in 1..=x.size {
        for i in 0..=x.dim {
            let e = x.op[i][d];
            if e != d {
                let a = word_of.get(&(d, i)).cloned().unwrap_or_default();
                let b = word_of.get(&(e, i)).cloned().unwrap_or_default();
                ensure!(a == inv_word(&b), "facet ({}, {}) carries {:?} and its other side ({}, {}) carries {:?}, which are not mutually inverse", d, i, a, e, i, b);
            }
        }
    }
    let rels: Vec<Word> = fg.relators.iter().map(lw).collect();
    for r in &rels {
        ensure!(is_reduced(r) && !r.is_empty(), "relator {:?} is empty or not freely reduced", r);
        ensure!(r.iter().all(|l| l.unsigned_abs() as usize <= g), "relator {:?} uses a generator beyond {}", r, g);
    }
    let cones: Vec<(Word, usize)> = fg.cones.iter().map(|(w, v)| (lw(w), *v)).collect();
    for (w, _) in &cones {
        ensure!(is_reduced(w), "cone word {:?} is not freely reduced", w);
    }
    Ok(CratePres { nr_gens: g, rels, cones, word_of })
}

fn check_fg(c: &FgCase, obs: &mut Obs) -> Result<(), String> {
    check_fg_depth(c, obs, false)
}

/// the same without the expensive clauses (subgroup counts, orders): structure, relator and cone
/// classes, abelianisation - cheap enough for hundreds of thousands of symbols
fn check_fg_light(c: &FgCase, obs: &mut Obs) -> Result<(), String> {
    check_fg_depth(c, obs, true)
}

fn check_fg_depth(c: &FgCase, obs: &mut Obs, light: bool) -> Result<(), String> {
    let x = &c.0;
    ensure!(x.is_complete() && x.ops_are_involutions() && x.v_consistent() && x.is_connected() && x.commutes(), "harness: case is not a connected complete D-symbol");
    let cp = crate_presentation(x, false)?;
    let cs = crate_presentation(x, true)?;
    ensure!(cs.nr_gens == cp.nr_gens && cs.rels == cp.rels && cs.word_of == cp.word_of, "presentation differs between PartialDSym and SimpleDSym");
    // relators and cones at the level of classes, computed from edge_to_word alone
    let word = |d: usize, i: usize| cp.word_of.get(&(d, i)).cloned().unwrap_or_default();
    let mut want_rels: BTreeSet<Word> = BTreeSet::new();
    let mut want_cones: BTreeSet<(Word, usize)> = BTreeSet::new();
    for i in 0..=x.dim {
        for j in i..=x.dim {
            for orb in x.components(&[i, j]) {
                let d = orb[0];
                let mut w: Word = vec![];
                let mut e = d;
                loop {
                    w.extend(word(e, i));
                    e = x.op[i][e];
                    w.extend(word(e, j));
                    e = x.op[j][e];
                    if e == d {
                        break;
                    }
                }
                let w = free_reduce(&w);
                let v = v_of(x, i, j, d);
                let mut p = vec![];
                for _ in 0..v {
                    p.extend(w.iter());
                }
                let cls = relator_class(&p);
                if !cls.is_empty() {
                    want_rels.insert(cls);
                }
                if v > 1 {
                    want_cones.insert((relator_class(&w), v));
                }
            }
        }
    }
    let got_rels: BTreeSet<Word> = cp.rels.iter().map(|r| relator_class(r)).collect();
    // (two listed relators may be conjugate to each other: the statement does not ask for an irredundant list)
    obs.classify(got_rels.len() != cp.rels.len(), "relator list contains conjugate duplicates");
    for r in &want_rels {
        ensure!(got_rels.contains(r), "the relation {:?} of a 2-orbit (word around the orbit raised to its branching number) is missing from the relators {:?}", r, cp.rels);
    }
    for r in &got_rels {
        ensure!(want_rels.contains(r), "relator class {:?} does not belong to any 2-orbit", r);
    }
    let got_cones: BTreeSet<(Word, usize)> = cp.cones.iter().map(|(w, v)| (relator_class(w), *v)).collect();
    ensure!(got_cones == want_cones, "cones {:?}; words around the branched 2-orbits with their branching numbers {:?}", got_cones, want_cones);

    // invariants against the textbook presentation with the harness's own tree
    let own = own_fundamental_group(x);
    let p_crate = Pres { nr_gens: cp.nr_gens, rels: cp.rels.clone() };
    let (a1, a2) = (try_abelianization(p_crate.nr_gens, &p_crate.rels, 4096), try_abelianization(own.pres.nr_gens, &own.pres.rels, 4096));
    if let (Some(a1), Some(a2)) = (&a1, &a2) {
        ensure!(a1 == a2, "abelianisation of the returned presentation is {:?}, of the textbook presentation {:?}", a1, a2);
    } else {
        obs.class("abelianisation skipped (oracle entries too large)");
    }
    if light {
        let has_cone_or_mirror = !want_cones.is_empty() || (0..=x.dim).any(|i| (1..=x.size).any(|d| x.op[i][d] == d));
        obs.nontrivial(cp.nr_gens >= 1 && has_cone_or_mirror);
        obs.class(&format!("dim {}", x.dim));
        obs.classify((0..x.dim).any(|i| (1..=x.size).any(|d| x.v[i][d] == 2)), "has a 2-orbit with v = 2");
        return Ok(());
    }
    let (s1, s2) = (simplify_presentation(&p_crate), simplify_presentation(&own.pres));
    let kmax = 4;
    let mut compared = false;
    if s1.nr_gens <= 3 && s2.nr_gens <= 3 {
        if let (Some(c1), Some(c2)) = (subgroup_class_counts(&s1, kmax, 400_000), subgroup_class_counts(&s2, kmax, 400_000)) {
            ensure!(c1 == c2, "conjugacy classes of subgroups of index 1..{}: returned presentation {:?}, textbook presentation {:?}", kmax, c1, c2);
            compared = true;
            obs.class("subgroup classes by brute force");
        }
    }
    if !compared && s1.nr_gens <= 5 && s2.nr_gens <= 5 {
        // the crate's own low-index enumeration on both (simplified) presentations (C12 is its own property)
        let count = |p: &Pres| -> Option<Vec<usize>> {
            let rels: Vec<FreeWord> = p.rels.iter().map(|w| fw(w)).collect();
            guarded(|| {
                let mut by = vec![0usize; 4];
                for t in coset_tables(p.nr_gens, &rels, 3) {
                    by[t.len()] += 1;
                }
                by
            })
            .ok()
        };
        if let (Some(c1), Some(c2)) = (count(&s1), count(&s2)) {
            ensure!(c1 == c2, "low-index counts (index <= 3) differ: returned presentation {:?}, textbook presentation {:?}", c1, c2);
            obs.class("subgroup classes by low-index enumeration on both presentations");
        }
    }
    // order when finite
    let limit = if cp.nr_gens > 60 { 2_000 } else { 20_000 };
    let (t1, t2) = (todd_coxeter(p_crate.nr_gens, &p_crate.rels, &[], limit), todd_coxeter(own.pres.nr_gens, &own.pres.rels, &[], limit));
    if let (Some(t1), Some(t2)) = (&t1, &t2) {
        ensure!(t1.len() == t2.len(), "the returned presentation defines a group of order {}, the textbook presentation one of order {}", t1.len(), t2.len());
        obs.class("finite group, orders compared");
    }
    if x.dim == 2 {
        let k = orb2::curvature(x);
        let orb = orb2::invariants(x)?;
        if k.is_positive() && !orb.is_bad() {
            let want = Q::from(4) / k;
            ensure!(want.is_integer(), "harness: 4/K is not an integer");
            if let Some(t1) = &t1 {
                ensure!(Q::from(t1.len() as i64) == want, "spherical 2D symbol {} with curvature {}: group order {} != 4/K = {}", x.text(), k, t1.len(), want);
                obs.class("spherical 2D: order = 4/K");
            }
        }
    }
    let has_cone_or_mirror = !want_cones.is_empty() || (0..=x.dim).any(|i| (1..=x.size).any(|d| x.op[i][d] == d));
    obs.nontrivial(cp.nr_gens >= 1 && has_cone_or_mirror);
    obs.class(&format!("dim {}", x.dim));
    obs.classify(x.size >= 50, ">= 50 chambers");
    Ok(())
}

pub const SUB_FG: Sub<FgCase> = Sub {
    name: "presentation",
    rule: "connected complete D-symbol: generators 1..g each on its own facet pair, inverse words on the two sides of non-mirror facets, all words reduced; relator classes (mod conjugation, rotation, inversion) = classes of (word around each 2-orbit)^v computed from edge_to_word alone, cones likewise; same abelianisation, subgroup-class counts (index <= 4 by brute force, else index <= 3 by low-index enumeration on both) and finite order as the textbook presentation with the harness's own tree; order = 4/K for spherical 2D symbols; non-trivial = >= 1 generator and a cone or mirror",
    check: check_fg,
    panic_discards: &["Reached coset table limit"],
    journal: false,
};

pub const SUB_FG_LIGHT: Sub<FgCase> = Sub {
    name: "presentation_light",
    rule: "connected complete D-symbol, high volume: the structural clauses of 'presentation' (generators, inverse words, reduced words, relator classes = 2-orbit relations computed from edge_to_word alone, cones) and equal abelianisation with the textbook presentation; non-trivial = >= 1 generator and a cone or mirror",
    check: check_fg_light,
    panic_discards: &[],
    journal: false,
};

/// small branching numbers with many 2s (v = 2 on a cyclic orbit is where gluing counts coincide)
fn low_v_symbol(dim: usize, sizes: std::ops::RangeInclusive<usize>) -> impl Strategy<Value = DS> {
    (crate::gen::dsets::connected_dset_strategy(dim, sizes), prop::collection::vec(prop_oneof![3 => Just(1usize), 4 => Just(2usize), 1 => Just(3usize), 1 => Just(4usize)], 24)).prop_map(|(ds, vs)| {
        let reps = orbit_reps(&ds);
        let vals: Vec<usize> = (0..reps.len()).map(|j| vs[j % vs.len()]).collect();
        assign(&ds, &reps, &vals)
    })
}

pub fn corpus_lit() -> Vec<DS> {
    let txt = include_str!("../../../corpus/literature_symbols.txt");
    txt.lines().map(|l| l.trim()).filter(|l| l.starts_with('<')).filter_map(DS::parse).collect()
}

pub fn run(ctx: &mut Ctx) {
    let t = ctx.tier;
    ctx.rule = "all branching assignments (v <= 4, capped per D-set) on all connected enumerated D-sets (dim 2 and 3), the literature corpus, proptest-generated renumbered symbols and random symbols up to 300 chambers".into();
    ctx.assume("group equality is decided through invariants: abelianisation, subgroup-class counts for small index, order when finite");
    crate::props::run_regressions(ctx, "C09");
    ctx.layer("exhaustive");
    let dsets: Vec<DS> = { let mut v = dsets_up_to(2, t.pick(5, 7)); v.extend(dsets_up_to(3, t.pick(3, 4))); v.extend(dsets_up_to(4, t.pick(3, 4))); v.extend(dsets_up_to(5, 3)); v };
    let mut cases: Vec<FgCase> = vec![];
    let mut complete = true;
    for ds in &dsets {
        let (s, all) = assignments(ds, 4, t.pick(48, 256));
        complete &= all;
        cases.extend(s.into_iter().map(FgCase));
    }
    cases.extend(corpus_lit().into_iter().map(FgCase));
    let note = format!("all branching assignments v <= 4 on all {} connected D-sets (dim 2 size <= {}, dim 3 size <= {}){} plus the literature corpus", dsets.len(), t.pick(5, 7), t.pick(3, 4), if complete { "" } else { ", capped per D-set" });
    ctx.run_par(&SUB_FG, cases, if complete { Some(&note) } else { None });
    if !complete {
        ctx.note(note);
    }
    ctx.layer("random");
    let n = t.pick(6_000u32, 300_000u32);
    let pool = std::sync::Arc::new(dsets);
    {
        let pool = pool.clone();
        ctx.run_prop(&SUB_FG, move || pooled_symbol(pool.clone()).prop_map(FgCase), n);
    }
    ctx.run_prop(&SUB_FG, || prop_oneof![random_symbol(2, 6..=40), random_symbol(3, 5..=40), random_symbol(4, 4..=30), random_symbol(5, 4..=24)].prop_map(FgCase), n / 3);
    ctx.run_prop(&SUB_FG, || prop_oneof![random_symbol(2, 80..=300), random_symbol(3, 80..=300)].prop_map(FgCase), n / 60);
    // high volume, cheap clauses only
    ctx.layer("random-light");
    let m = t.pick(120_000u32, 3_000_000u32);
    ctx.run_prop(&SUB_FG_LIGHT, || prop_oneof![low_v_symbol(3, 6..=14), low_v_symbol(3, 6..=14), low_v_symbol(2, 6..=20), low_v_symbol(4, 5..=12)].prop_map(FgCase), m);
    ctx.run_prop(&SUB_FG_LIGHT, || prop_oneof![random_symbol(3, 6..=16), random_symbol(2, 6..=24)].prop_map(FgCase), m / 3);
}

pub fn replay(ctx: &mut Ctx, sub: &str, case: &Value) -> Option<Result<(), String>> {
    Some(match sub {
        "presentation" => ctx.run_one(&SUB_FG, &FgCase::decode(case)?),
        "presentation_light" => ctx.run_one(&SUB_FG_LIGHT, &FgCase::decode(case)?),
        _ => return None,
    })
}
