//! C16 — simplification keeps a 3D tiling a valid manifold of the same topology
use crate::ensure;
use crate::gen::covers::check_projection;
use crate::gen::dsym3::*;
use crate::model::*;
use crate::oracle::fg::own_fundamental_group;
use crate::oracle::groups::*;
use crate::oracle::iso::canonical_code;
use crate::oracle::orb2;
use crate::props::c15::{branch_free, h1, is_oriented, ptc};
use crate::props::c17::{class_counts, corpus_cases};
use crate::runner::*;
use crate::util::*;
use num_rational::Rational64 as Q;
use proptest::prelude::*;
use rust_dsymbols::covers::{covers, finite_universal_cover};
use rust_dsymbols::derived::{canonical, minimal_image};
use rust_dsymbols::simplify::simplify;
use serde_json::{json, Value};
use std::sync::Arc;

#[derive(Clone, Debug, Hash)]
pub struct SimpCase {
    pub base: DS,
    /// "ptc" = pseudo-toroidal cover of the base, "cover" = a branch-free oriented cover from covers(base, k),
    /// "universal" = finite universal cover, "self" = the base itself (must be branch-free)
    pub source: String,
    pub k: usize,
    pub pick: u32,
    pub swaps: Vec<(u32, u32)>,
    pub known: String,
    /// source "subgroup": generators of the subgroup whose cover is taken (crate generator numbering, letters mapped into range)
    pub words: Vec<Vec<i64>>,
    /// number of additional evaluations of the unrenumbered input (simplify iterates over hash sets); 0 = one
    pub repeat: usize,
}

impl Case for SimpCase {
    fn encode(&self) -> Value {
        json!({"base": self.base.encode(), "source": self.source, "k": self.k, "pick": self.pick, "swaps": self.swaps.iter().map(|s| json!([s.0, s.1])).collect::<Vec<_>>(), "known_euclidean": self.known, "subgroup_words": self.words, "repeat": self.repeat})
    }
    fn decode(v: &Value) -> Option<Self> {
        Some(SimpCase {
            base: DS::decode(v.get("base")?)?,
            source: v.get("source")?.as_str()?.to_string(),
            k: v.get("k")?.as_u64()? as usize,
            pick: v.get("pick")?.as_u64()? as u32,
            swaps: v.get("swaps")?.as_array()?.iter().filter_map(|p| Some((p.get(0)?.as_u64()? as u32, p.get(1)?.as_u64()? as u32))).collect(),
            known: v.get("known_euclidean").and_then(|k| k.as_str()).unwrap_or("").to_string(),
            words: v.get("subgroup_words").and_then(dec_words).unwrap_or_default(),
            repeat: v.get("repeat").and_then(|r| r.as_u64()).unwrap_or(0) as usize,
        })
    }
    fn weight(&self) -> usize {
        self.base.size * self.k.max(1)
    }
    fn hash64(&self) -> u64 {
        h64(self)
    }
}

/// complete, branch-free, every tile and vertex figure an oriented sphere (own count)
fn valid_manifold(y: &DS) -> Result<(), String> {
    ensure!(y.dim == 3 && y.ops_are_involutions(), "result is not a complete 3D D-set");
    ensure!(y.commutes(), "operations with index distance > 1 do not commute in the result");
    ensure!(branch_free(y), "result is not branch-free");
    for a in 0..=1 {
        for comp in y.components(&[a, a + 1, a + 2]) {
            let s = subsymbol2(y, a, &comp);
            ensure!(is_oriented(&s), "a ({},{},{})-component of the result (chamber {}) is not an oriented surface", a, a + 1, a + 2, comp[0]);
            // V - E + F = 2 for a branch-free oriented 2D symbol <=> curvature 4
            let k = orb2::curvature(&s);
            ensure!(k == Q::from(4), "a ({},{},{})-component of the result (chamber {}, {} chambers) has Euler characteristic {}, not 2", a, a + 1, a + 2, comp[0], comp.len(), k / Q::from(2));
        }
    }
    Ok(())
}

/// the D-set handed to simplify: produced by a crate routine, validated by the harness; Err = reason to skip
fn derive_input(c: &SimpCase) -> Result<DS, String> {
    let x = &c.base;
    let input: DS = match c.source.as_str() {
        "ptc" => match ptc(x, false) {
            Ok(Some((_, y))) => y,
            Ok(None) => return Err("no pseudo-toroidal cover".into()),
            Err(_) => return Err("pseudo-toroidal cover invalid (C15's subject)".into()),
        },
        "ptc2" => {
            // pseudo-toroidal cover of a 2-sheeted cover of the base (what the euclidicity test feeds in
            // when it is asked about a cover); a cover of a euclidean symbol is euclidean
            let list = guarded(|| covers(&x.to_partial(), 2)).map_err(|_| "covers panicked (C05's subject)".to_string())?;
            let good: Vec<DS> = list.iter().map(|y| DS::from_dsym(y)).filter(|y| y.size == 2 * x.size && y.is_connected() && check_projection(x, y).is_ok()).collect();
            if good.is_empty() {
                return Err("no 2-sheeted cover".into());
            }
            let y = &good[pick_index(c.pick, good.len())];
            match ptc(y, false) {
                Ok(Some((_, z))) => z,
                Ok(None) => return Err("no pseudo-toroidal cover".into()),
                Err(_) => return Err("pseudo-toroidal cover invalid (C15's subject)".into()),
            }
        }
        "universal" => {
            let fg = own_fundamental_group(x);
            match todd_coxeter(fg.pres.nr_gens, &fg.pres.rels, &[], 400) {
                Some(t) if t.len() * x.size <= 2000 => {}
                _ => return Err("group infinite or too large for a finite universal cover".into()),
            }
            guarded(|| DS::from_dsym(&finite_universal_cover(&x.to_partial()))).map_err(|_| "finite_universal_cover panicked (C05's subject)".to_string())?
        }
        "subgroup" => {
            // the cover belonging to a subgroup of finite index given by words: for a symbol with finite
            // group and a freely acting subgroup this is a spherical space form (lens spaces etc.)
            let cp = crate::props::c09::crate_presentation(x, false).map_err(|_| "presentation invalid (C09's subject)".to_string())?;
            let g = cp.nr_gens as i64;
            if g == 0 {
                return Err("trivial group".into());
            }
            let words: Vec<Word> = c.words.iter().map(|w| free_reduce(&w.iter().map(|&l| { let a = (l.abs() - 1) % g + 1; if l > 0 { a } else { -a } }).collect::<Vec<_>>())).filter(|w| !w.is_empty()).collect();
            match todd_coxeter(cp.nr_gens, &cp.rels, &words, 4000) {
                Some(t) if t.len() * x.size <= 2500 && t.len() >= 2 => {}
                _ => return Err("subgroup of infinite / too large / trivial index".into()),
            }
            let fws: Vec<rust_dsymbols::fpgroups::free_words::FreeWord> = words.iter().map(|w| crate::props::c11::fw(w)).collect();
            let y = guarded(|| DS::from_dsym(&rust_dsymbols::covers::subgroup_cover(&x.to_partial(), &fws))).map_err(|_| "subgroup_cover panicked (C05's subject)".to_string())?;
            if check_projection(x, &y).is_err() {
                return Err("subgroup_cover is not a covering (C05's subject)".into());
            }
            y
        }
        "cover" => {
            let list = guarded(|| covers(&x.to_partial(), c.k)).map_err(|_| "covers panicked (C05's subject)".to_string())?;
            let good: Vec<DS> = list.iter().map(|y| DS::from_dsym(y)).filter(|y| branch_free(y) && is_oriented(y) && y.is_connected() && check_projection(x, y).is_ok()).collect();
            if good.is_empty() {
                return Err("no branch-free oriented cover with that many sheets".into());
            }
            good[pick_index(c.pick, good.len())].clone()
        }
        _ => x.clone(),
    };
    if !(branch_free(&input) && is_oriented(&input) && input.is_connected()) {
        // e.g. the "universal cover" of a bad orbifold keeps its branching
        return Err("cover is not a branch-free oriented manifold".into());
    }
    if valid_manifold(&input).is_err() {
        return Err("input tiles / vertex figures are not spheres".into());
    }
    Ok(input)
}

fn check_simp(c: &SimpCase, obs: &mut Obs) -> Result<(), String> {
    let x = &c.base;
    ensure!(x.dim == 3 && x.is_complete() && x.is_connected() && x.commutes(), "harness: base is not a connected complete 3D symbol");
    // the input, produced by a crate routine and validated by the harness
    let input = match derive_input(c) {
        Ok(i) => i,
        Err(why) => {
            obs.discard(&why);
            return Ok(());
        }
    };
    let promised = c.source == "ptc" || c.source == "ptc2";
    // three renumberings derived from the case's swap list
    let renums: Vec<DS> = (0..3u32)
        .map(|j| {
            let sw: Vec<(u32, u32)> = c.swaps.iter().map(|&(a, b)| (a.wrapping_add(j.wrapping_mul(0x9e37_79b9)).rotate_left(7 * j), b.wrapping_mul(2 * j + 1).wrapping_add(j.wrapping_mul(0x85eb_ca6b)))).collect();
            input.renumbered(&perm_from_swaps(input.size, &sw))
        })
        .collect();
    // the routine under test, on all numberings; on the inputs the euclidicity test feeds in it must not panic
    let run = |d: &DS| guarded(|| simplify(&d.to_partial_dset()).map(|o| DS::from_dsym(&o)));
    let mut results = vec![("input", run(&input)), ("renumbered input", run(&renums[0])), ("input, second evaluation", run(&input)), ("renumbered input (2)", run(&renums[1])), ("renumbered input (3)", run(&renums[2]))];
    for _ in 0..c.repeat.min(200) {
        results.push(("input, repeated evaluation", run(&input)));
    }
    let mut outs = vec![];
    for (which, r) in results {
        match r {
            Err(p) => {
                if promised {
                    return Err(format!("simplify panicked on the pseudo-toroidal cover of {} ({}): {}", x.short(), which, p));
                }
                obs.discard("simplify panicked outside its promised domain");
                return Ok(());
            }
            Ok(o) => outs.push((which, o)),
        }
    }
    // finite fundamental group: by construction (universal cover) or by the harness's own coset enumeration
    let finite_input = c.source == "universal" || {
        let p = simplify_presentation(&own_fundamental_group(&input).pres);
        p.nr_gens == 0 || todd_coxeter(p.nr_gens, &p.rels, &[], 3000).is_some()
    };
    obs.classify(finite_input && c.source != "universal", "finite group, not a universal cover (space form)");
    let mut keys = vec![];
    for (which, o) in &outs {
        let out = match o {
            None => {
                keys.push(None);
                continue;
            }
            Some(out) => out,
        };
        valid_manifold(out).map_err(|e| format!("simplify({} of {} via {}): {}", which, x.short(), c.source, e))?;
        if out.is_connected() {
            if promised {
                ensure!(out.components(&[0, 1, 2]).len() == 1, "simplified pseudo-toroidal cover of {} has {} tiles", x.short(), out.components(&[0, 1, 2]).len());
                ensure!(out.components(&[1, 2, 3]).len() == 1, "simplified pseudo-toroidal cover of {} has {} vertices", x.short(), out.components(&[1, 2, 3]).len());
                for i in 0..3 {
                    for d in 1..=out.size {
                        ensure!(out.r(i, i + 1, d) != 2, "simplified pseudo-toroidal cover of {} has a ({},{})-orbit of length 2 (degree 2) at chamber {}", x.short(), i, i + 1, d);
                    }
                }
            }
            // same topology where no sphere surgery can change it
            if !c.known.is_empty() || finite_input {
                let (hi, ho) = (h1(&input), h1(out));
                if let (Some(hi), Some(ho)) = (hi, ho) {
                    ensure!(hi == ho, "first homology changes from {:?} to {:?} under simplification ({} via {})", hi, ho, x.short(), c.source);
                }
                let (pi, po) = (own_fundamental_group(&input).pres, own_fundamental_group(out).pres);
                if let (Some(ci), Some(co)) = (class_counts(&pi, 3), class_counts(&po, 3)) {
                    ensure!(ci == co, "numbers of subgroup classes of index 1..3 change from {:?} to {:?} under simplification ({} via {})", ci, co, x.short(), c.source);
                    obs.class("subgroup profile compared");
                }
                obs.class("homology compared");
            }
            if !c.known.is_empty() {
                let mi = DS::from_dsym(&canonical(&minimal_image(&out.to_partial())));
                keys.push(Some(canonical_code(&mi, true)));
            } else {
                keys.push(None);
            }
        } else {
            obs.class("disconnected result");
            keys.push(None);
        }
    }
    if !c.known.is_empty() {
        ensure!(keys.iter().all(|k| k.is_some()), "simplification of the pseudo-toroidal cover of the euclidean symbol {} is not connected / empty", x.short());
        ensure!(keys.iter().all(|k| *k == keys[0]), "canonical minimal image of the simplified cover of {} depends on the numbering or on the evaluation", x.short());
        obs.class("known-euclidean corpus");
    }
    let connected_nontrivial = outs.iter().any(|(_, o)| o.as_ref().map_or(false, |o| o.is_connected() && own_fundamental_group(o).pres.nr_gens > 0));
    obs.nontrivial(input.size >= 96 || connected_nontrivial);
    obs.classify(outs[0].1.is_none(), "None (lens space / sphere)");
    obs.class(&format!("source {}", c.source));
    obs.classify(input.size >= 96, "input >= 96 chambers");
    Ok(())
}

pub const SUB_SIMP: Sub<SimpCase> = Sub {
    name: "simplify",
    rule: "(3D symbol, route to a branch-free oriented cover: pseudo-toroidal cover / branch-free cover / finite universal cover, renumbering): whenever simplify returns a D-set it is complete, branch-free, every tile and vertex figure an oriented sphere (own count); on pseudo-toroidal covers no panic, a connected result has one tile, one vertex and no degree-2 edge / face / tile; on the known-euclidean corpus and on finite universal covers a connected result keeps H1 and the index <= 3 subgroup profile; on the known-euclidean corpus the canonical minimal image is the same for three renumbered copies of the input and for a second evaluation; non-trivial = input >= 96 chambers or connected result with non-trivial group",
    check: check_simp,
    panic_discards: &["Reached coset table limit"],
    journal: false,
};

pub fn run(ctx: &mut Ctx) {
    let t = ctx.tier;
    ctx.rule = "inputs = pseudo-toroidal covers of all 3D symbols with spherical links (branching {1,2,3,4,6}) up to a size bound, of the literature corpus, of the products and of quotients of the cubic / prism tilings by space groups; cubical 3-manifolds of known topology (T^3, S^2 x S^1, S^3, RP^3 and connected sums by tile surgery); branch-free oriented covers with <= k sheets and finite universal covers of the symbols with branching in {1,..,5}; every input also randomly renumbered; the covers are produced by the crate and validated by the harness before use".into();
    ctx.assume("panics of simplify on inputs that are not pseudo-toroidal covers are discards (the property promises 'whenever simplification returns a D-set' there)");
    ctx.assume("nothing is asserted about group invariants when the base is not known-euclidean and the input group is infinite (sphere surgery may change it)");
    crate::props::run_regressions(ctx, "C16");
    ctx.layer("exhaustive");
    let maxn = t.pick(4, 5);
    let mut cases: Vec<SimpCase> = vec![];
    let sw = |k: usize| vec![((k as u32).wrapping_mul(0x9e37_79b9), (k as u32 + 3).wrapping_mul(0x85eb_ca6b)), ((k as u32).wrapping_mul(0x27d4_eb2f), (k as u32 + 11).wrapping_mul(0x1656_67b1))];
    for n in 1..=maxn {
        for (k, s) in symbols_of_size(n, &CRYSTALLOGRAPHIC).into_iter().enumerate() {
            cases.push(SimpCase { base: s, source: "ptc".into(), k: 0, pick: 0, swaps: sw(k), known: String::new(), words: vec![], repeat: 0 });
        }
    }
    for (k, c) in corpus_cases(t.pick(4, 6)).into_iter().enumerate() {
        // the dual of a euclidean symbol is euclidean; its cover is a different input for simplify
        cases.push(SimpCase { base: c.ds.dual(), source: "ptc".into(), k: 0, pick: 0, swaps: sw(k + 5), known: format!("dual of: {}", c.known), words: vec![], repeat: 0 });
        cases.push(SimpCase { base: c.ds, source: "ptc".into(), k: 0, pick: 0, swaps: sw(k), known: c.known, words: vec![], repeat: 0 });
    }
    // pseudo-toroidal covers of 2-sheeted covers of the known-euclidean corpus
    let stride = t.pick(6, 2);
    for (k, c) in corpus_cases(t.pick(4, 6)).into_iter().enumerate() {
        if c.known == "literature corpus" || k % stride == 0 {
            cases.push(SimpCase { base: c.ds.dual(), source: "ptc2".into(), k: 2, pick: (k as u32).wrapping_mul(0x85eb_ca6b), swaps: sw(k + 2), known: format!("2-sheeted cover of the dual of: {}", c.known), words: vec![], repeat: 0 });
            cases.push(SimpCase { base: c.ds, source: "ptc2".into(), k: 2, pick: (k as u32).wrapping_mul(0x9e37_79b9), swaps: sw(k + 1), known: format!("2-sheeted cover of: {}", c.known), words: vec![], repeat: 0 });
        }
    }
    // quotients of the cubic tiling by space groups (known euclidean) and cubical manifolds of known topology
    for (k, c) in crate::props::c17::cubic_cases(t.pick(400, 4000), t.pick(3, 4)).into_iter().enumerate() {
        cases.push(SimpCase { base: c.ds, source: "ptc".into(), k: 0, pick: 0, swaps: sw(k), known: c.known, words: vec![], repeat: 0 });
    }
    for (k, c) in crate::props::c17::manifold_cases(t.pick(3, 12), true).into_iter().enumerate() {
        if c.kind == "weak" {
            cases.push(SimpCase { base: c.ds, source: "ptc".into(), k: 0, pick: 0, swaps: sw(k), known: c.known, words: vec![], repeat: 0 });
        } else {
            cases.push(SimpCase { base: c.ds, source: "self".into(), k: 0, pick: 0, swaps: sw(k), known: String::new(), words: vec![], repeat: 0 });
        }
    }
    // one cube with its opposite faces glued with quarter-turn twists: up to 64 inputs with literally the
    // same tiles (operations 0, 1, 2 and numbering) and different gluings, of different topology (3-torus,
    // flat manifolds with holonomy, spherical space forms); neighbours in the case list, so that the same
    // worker meets several of them in a row
    for round in 0..3usize {
        for code in 0..64usize {
            let tw = [code % 4, (code / 4) % 4, code / 16];
            let base = crate::gen::manifold::cube_gluing(tw);
            if base.ops_are_involutions() && base.commutes() {
                cases.push(SimpCase { base, source: "self".into(), k: 0, pick: 0, swaps: sw(code + 64 * round), known: if code == 0 { "3-torus (one cube, faces glued by translations)".into() } else { String::new() }, words: vec![], repeat: 0 });
            }
        }
    }
    // class (B): branching up to 5
    for n in 1..=t.pick(2, 3) {
        for (k, s) in symbols_of_size(n, &[1, 2, 3, 4, 5]).into_iter().enumerate() {
            cases.push(SimpCase { base: s.clone(), source: "universal".into(), k: 0, pick: 0, swaps: sw(k), known: String::new(), words: vec![], repeat: 0 });
            if k % 3 == 0 {
                cases.push(SimpCase { base: s, source: "cover".into(), k: t.pick(6, 8), pick: (k as u32).wrapping_mul(0x9e37_79b9), swaps: sw(k), known: String::new(), words: vec![], repeat: 0 });
            }
        }
    }
    // spherical space forms: covers of finite-group symbols belonging to (mostly cyclic) subgroups given by
    // pseudo-random words; the route keeps those that act freely (branch-free oriented manifold covers)
    {
        let mut bases: Vec<DS> = ["<1.1:1 3:1,1,1,1:3,3,3>", "<1.1:1 3:1,1,1,1:4,3,3>", "<1.1:1 3:1,1,1,1:3,3,4>", "<1.1:1 3:1,1,1,1:3,4,3>", "<1.1:1 3:1,1,1,1:5,3,3>", "<1.1:1 3:1,1,1,1:3,3,5>"].iter().filter_map(|t| DS::parse(t)).collect();
        let regular = bases.len();
        for n in 1..=2 {
            bases.extend(symbols_of_size(n, &[1, 2, 3, 4, 5]));
        }
        for (bi, b) in bases.iter().enumerate() {
            let trials = if bi < regular { t.pick(400, 4000) } else { t.pick(3, 12) };
            for tr in 0..trials {
                let mut h = ((bi as u64) << 32 | tr as u64).wrapping_add(1).wrapping_mul(0x9e37_79b9_7f4a_7c15);
                let mut next = || {
                    h ^= h >> 29;
                    h = h.wrapping_mul(0xbf58_476d_1ce4_e5b9);
                    h ^= h >> 32;
                    (h & 0xffff_ffff) as u32
                };
                let nw = if next() % 5 == 0 { 2 } else { 1 };
                let words: Vec<Vec<i64>> = (0..nw).map(|_| { let len = 1 + next() % 10; (0..len).map(|_| { let l = 1 + (next() % 6) as i64; if next() % 2 == 0 { l } else { -l } }).collect() }).collect();
                cases.push(SimpCase { base: b.clone(), source: "subgroup".into(), k: 0, pick: 0, swaps: sw(tr), known: String::new(), words, repeat: 0 });
            }
        }
    }
    // keep only the cases whose route actually yields an input (so that the check's cases are real ones)
    let total_candidates = cases.len();
    let cases: Vec<SimpCase> = {
        use rayon::prelude::*;
        cases
            .into_par_iter()
            .filter(|c| matches!(guarded(|| derive_input(c)), Ok(Ok(_))))
            .collect()
    };
    ctx.note(format!("{} of {} candidate (symbol, route) pairs yield an input for simplify", cases.len(), total_candidates));
    let n = cases.len();
    ctx.run_par(&SUB_SIMP, cases.clone(), Some(&format!("{} cases: pseudo-toroidal covers of all 3D symbols with spherical links (<= {} chambers), of the literature corpus, the products and the space-group quotients of the cubic / prism tilings; cubical 3-manifolds of known topology (connected sums by tile surgery) as they are; finite universal covers and branch-free covers of the symbols with branching <= 5 (<= {} chambers); covers belonging to freely acting subgroups given by pseudo-random words (spherical space forms) of the six regular spherical symbols and of the finite-group symbols with <= 2 chambers", n, maxn, t.pick(2, 3))));
    // many renumberings of the covers of the literature symbols and their duals (a numbering-dependent
    // mis-cut in network_cut showed for 4 of 200 renumberings of one of these 40 covers only)
    ctx.layer("literature-renumberings");
    let lit: Vec<SimpCase> = cases.iter().filter(|c| (c.source == "ptc" || c.source == "ptc2") && c.known.contains("literature corpus")).cloned().collect();
    if !lit.is_empty() {
        let lit = Arc::new(lit);
        ctx.run_prop(
            &SUB_SIMP,
            move || {
                let p = lit.clone();
                (any::<u32>(), prop::collection::vec((any::<u32>(), any::<u32>()), 4..24)).prop_map(move |(k, swaps)| {
                    let mut c = p[pick_index(k, p.len())].clone();
                    c.swaps = swaps;
                    c
                })
            },
            t.pick(1_500, 25_000),
        );
    }
    ctx.layer("random");
    let pool = Arc::new(cases);
    ctx.run_prop(
        &SUB_SIMP,
        move || {
            let p = pool.clone();
            (any::<u32>(), prop::collection::vec((any::<u32>(), any::<u32>()), 0..10), any::<u32>()).prop_map(move |(k, swaps, pick)| {
                let mut c = p[pick_index(k, p.len())].clone();
                c.swaps = swaps;
                c.pick = pick;
                c
            })
        },
        t.pick(3_000, 40_000),
    );
}

pub fn replay(ctx: &mut Ctx, sub: &str, case: &Value) -> Option<Result<(), String>> {
    Some(match sub {
        "simplify" => ctx.run_one(&SUB_SIMP, &SimpCase::decode(case)?),
        _ => return None,
    })
}
