//! C15 — toroidal and pseudo-toroidal covers are branch-free tori
use crate::ensure;
use crate::gen::covers::check_projection;
use crate::gen::dsym3::*;
use crate::model::*;
use crate::oracle::fg::own_fundamental_group;
use crate::oracle::orb2;
use crate::oracle::snf::{try_abelianization, try_abelianization_fast};
use crate::props::c09::corpus_lit;
use crate::runner::*;
use crate::util::*;
use num_bigint::BigInt;
use num_traits::Zero;
use proptest::prelude::*;
use rust_dsymbols::delaney2d::toroidal_cover;
use rust_dsymbols::delaney3d::pseudo_toroidal_cover;
use rust_dsymbols::fundamental_group::fundamental_group;
use serde_json::{json, Value};
use std::sync::Arc;

#[derive(Clone, Debug, Hash)]
pub struct TorCase {
    pub ds: DS,
    pub swaps: Vec<(u32, u32)>,
    pub dual: bool,
    /// the symbol is known to be euclidean independently of the crate ("" = unknown)
    pub known: String,
    /// "" = known euclidean whenever `known` is non-empty (verdict must be yes); "weak" = known to
    /// be euclidean, verdict must not be no; "notflat" = known not to be euclidean, verdict must not be yes
    pub kind: String,
}

impl TorCase {
    pub fn known_euclidean(&self) -> bool {
        !self.known.is_empty() && self.kind != "notflat"
    }
    pub fn known_not_euclidean(&self) -> bool {
        !self.known.is_empty() && self.kind == "notflat"
    }
}

impl Case for TorCase {
    fn encode(&self) -> Value {
        json!({"symbol": self.ds.encode(), "swaps": self.swaps.iter().map(|s| json!([s.0, s.1])).collect::<Vec<_>>(), "dual": self.dual, "known_euclidean": self.known, "known_kind": self.kind})
    }
    fn decode(v: &Value) -> Option<Self> {
        Some(TorCase {
            ds: DS::decode(v.get("symbol")?)?,
            swaps: v.get("swaps")?.as_array()?.iter().filter_map(|p| Some((p.get(0)?.as_u64()? as u32, p.get(1)?.as_u64()? as u32))).collect(),
            dual: v.get("dual")?.as_bool()?,
            known: v.get("known_euclidean").and_then(|k| k.as_str()).unwrap_or("").to_string(),
            kind: v.get("known_kind").and_then(|k| k.as_str()).unwrap_or("").to_string(),
        })
    }
    fn weight(&self) -> usize {
        self.ds.size
    }
    fn hash64(&self) -> u64 {
        h64(self)
    }
}

pub fn is_oriented(y: &DS) -> bool {
    orb2::two_colouring(y).is_some() && (0..=y.dim).all(|i| (1..=y.size).all(|d| y.op[i][d] != d))
}

/// no branching at all: every v = 1, including the implicit ones of non-adjacent index pairs
pub fn branch_free(y: &DS) -> bool {
    (0..y.dim).all(|i| (1..=y.size).all(|d| y.v[i][d] == 1)) && (0..=y.dim).all(|i| ((i + 2)..=y.dim).all(|j| (1..=y.size).all(|d| y.r(i, j, d) == 2)))
}

pub fn h1(y: &DS) -> Option<Vec<BigInt>> {
    let fg = own_fundamental_group(y);
    if fg.pres.nr_gens <= 24 {
        return try_abelianization(fg.pres.nr_gens, &fg.pres.rels, 8192);
    }
    let fast = try_abelianization_fast(fg.pres.nr_gens, &fg.pres.rels, 8192);
    if fg.pres.nr_gens <= 60 {
        // the plain route is affordable: the two own routes must agree
        let plain = try_abelianization(fg.pres.nr_gens, &fg.pres.rels, 8192);
        if let (Some(a), Some(b)) = (&fast, &plain) {
            assert!(a == b, "harness: the two abelianisation routes of the oracle disagree");
        }
    }
    fast
}

fn zeros(n: usize) -> Vec<BigInt> {
    vec![BigInt::zero(); n]
}

// ---------------------------------------------------------------------------
// 2D

fn tor2(x: &DS, simple: bool) -> Result<DS, String> {
    let y = if simple { DS::from_dsym(&toroidal_cover(&x.to_simple())) } else { DS::from_dsym(&toroidal_cover(&x.to_partial())) };
    ensure!(y.ops_are_involutions() && y.is_connected(), "toroidal_cover({}) is not a connected complete symbol", x.short());
    check_projection(x, &y).map_err(|e| format!("toroidal_cover({}) is not a covering of the input: {}", x.short(), e))?;
    ensure!(is_oriented(&y), "toroidal_cover({}) is not oriented", x.short());
    ensure!(branch_free(&y), "toroidal_cover({}) still has branching", x.short());
    let fg = fundamental_group(&y.to_partial());
    ensure!(fg.cones.is_empty(), "the fundamental group of toroidal_cover({}) has cones {:?}", x.short(), fg.cones);
    ensure!(orb2::curvature(&y).is_zero(), "toroidal_cover({}) has curvature {}", x.short(), orb2::curvature(&y));
    let h = h1(&y).ok_or("harness: abelianisation oracle gave up")?;
    ensure!(h == zeros(2), "the fundamental group of toroidal_cover({}) abelianises to {:?}, not Z^2", x.short(), h);
    Ok(y)
}

fn check_tor2(c: &TorCase, obs: &mut Obs) -> Result<(), String> {
    let x = &c.ds;
    ensure!(x.dim == 2 && x.is_complete() && x.is_connected() && orb2::curvature(x).is_zero(), "harness: case is not a connected euclidean 2D symbol");
    let y = tor2(x, false)?;
    let ys = tor2(x, true)?;
    ensure!(ys.size == y.size, "toroidal cover has {} chambers from PartialDSym and {} from SimpleDSym", y.size, ys.size);
    let mut variant = x.renumbered(&perm_from_swaps(x.size, &c.swaps));
    if c.dual {
        variant = variant.dual();
    }
    let yv = tor2(&variant, c.swaps.len() % 2 == 1)?;
    ensure!(yv.size == y.size, "sheet number of the toroidal cover depends on the numbering / dualisation: {} vs {}", y.size / x.size, yv.size / x.size);
    let sheets = y.size / x.size;
    obs.nontrivial(sheets >= 2);
    obs.class(&format!("{} sheets", sheets));
    Ok(())
}

pub const SUB_TOR2: Sub<TorCase> = Sub {
    name: "toroidal_2d",
    rule: "(euclidean 2D symbol, renumbering, dual?): toroidal_cover returns (no panic) a connected covering of the input under the documented projection, oriented, without any branching, crate cone list empty, curvature 0 and H1 = Z^2 by own presentation + SNF; same sheet number for the renumbered / dual symbol; non-trivial = >= 2 sheets",
    check: check_tor2,
    panic_discards: &["Reached coset table limit"],
    journal: false,
};

// ---------------------------------------------------------------------------
// 3D

const POINT_GROUP_ORDERS: [usize; 8] = [1, 2, 3, 4, 6, 8, 12, 24];

/// None / Some(sheets over the oriented cover), after validating a returned cover
pub fn ptc(x: &DS, simple: bool) -> Result<Option<(usize, DS)>, String> {
    let r = if simple { pseudo_toroidal_cover(&x.to_simple()) } else { pseudo_toroidal_cover(&x.to_partial()) };
    let y = match r {
        None => return Ok(None),
        Some(y) => DS::from_dsym(&y),
    };
    ensure!(y.ops_are_involutions() && y.is_connected(), "pseudo_toroidal_cover({}) is not a connected complete symbol", x.short());
    check_projection(x, &y).map_err(|e| format!("pseudo_toroidal_cover({}) is not a covering of the input: {}", x.short(), e))?;
    ensure!(is_oriented(&y), "pseudo_toroidal_cover({}) is not oriented", x.short());
    ensure!(branch_free(&y), "pseudo_toroidal_cover({}) still has branching", x.short());
    let h = h1(&y).ok_or("harness: abelianisation oracle gave up")?;
    ensure!(h == zeros(3), "the fundamental group of pseudo_toroidal_cover({}) abelianises to {:?}, not Z^3", x.short(), h);
    let osize = if is_oriented(x) { x.size } else { 2 * x.size };
    ensure!(y.size % osize == 0 && POINT_GROUP_ORDERS.contains(&(y.size / osize)), "pseudo_toroidal_cover({}) has {} chambers = {} x the oriented cover, not the order of one of the admissible point groups", x.short(), y.size, y.size as f64 / osize as f64);
    Ok(Some((y.size / osize, y)))
}

fn check_ptc(c: &TorCase, obs: &mut Obs) -> Result<(), String> {
    let x = &c.ds;
    ensure!(x.dim == 3 && x.is_complete() && x.is_connected() && x.commutes(), "harness: case is not a connected complete 3D symbol");
    ensure!((0..3).all(|i| (1..=x.size).all(|d| CRYSTALLOGRAPHIC.contains(&x.v[i][d]))), "harness: crystallographic restriction violated by the generator");
    let a = ptc(x, false)?;
    let mut variant = x.renumbered(&perm_from_swaps(x.size, &c.swaps));
    if c.dual {
        variant = variant.dual();
    }
    let b = ptc(&variant, c.swaps.len() % 2 == 1)?;
    ensure!(
        a.as_ref().map(|t| t.0) == b.as_ref().map(|t| t.0),
        "pseudo_toroidal_cover depends on the numbering / dualisation: {:?} sheets for {}, {:?} sheets for {}",
        a.as_ref().map(|t| t.0), x.short(), b.as_ref().map(|t| t.0), variant.short()
    );
    if c.known_euclidean() {
        ensure!(a.is_some(), "no pseudo-toroidal cover is found for {}, which is euclidean ({})", x.short(), c.known);
        obs.class("known-euclidean corpus");
    }
    obs.nontrivial(a.as_ref().map_or(false, |t| t.0 >= 2));
    obs.classify(a.is_none(), "None");
    if let Some((k, _)) = &a {
        obs.class(&format!("Some, {} sheets over the oriented cover", k));
    }
    Ok(())
}

pub const SUB_PTC: Sub<TorCase> = Sub {
    name: "pseudo_toroidal_3d",
    rule: "(3D symbol with spherical tiles / vertex figures and branching in {1,2,3,4,6}, renumbering, dual?, known-euclidean tag): a returned cover is a connected covering of the input, oriented, branch-free, H1 = Z^3 (own presentation + SNF), sheet number over the oriented cover in {1,2,3,4,6,8,12,24}; Some/None and the sheet number are the same for the renumbered / dual symbol; Some for the known-euclidean corpus; non-trivial = Some with >= 2 sheets",
    check: check_ptc,
    panic_discards: &["Reached coset table limit"],
    journal: false,
};

// ---------------------------------------------------------------------------

pub fn products(max2d: usize) -> Vec<(DS, String)> {
    let mut out = vec![];
    for s in euclidean_2d_up_to(max2d) {
        for (t0, t1, name) in LINES.iter() {
            out.push((product(&s, t0, t1), format!("product of the euclidean 2D symbol {} with the line tiling '{}'", s.text(), name)));
        }
    }
    out
}

fn fixed_swaps(n: usize, k: usize) -> Vec<(u32, u32)> {
    let n = n as u32;
    let unit = |i: u32| ((i as u64 * (1u64 << 32)) / n.max(1) as u64) as u32;
    match k % 3 {
        0 => (0..n / 2).map(|i| (unit(i), unit(n - 1 - i))).collect(),
        1 => (0..n.saturating_sub(1)).map(|i| (unit(i), unit(i + 1))).collect(),
        _ => vec![(0, unit(n / 2))],
    }
}

pub fn run(ctx: &mut Ctx) {
    let t = ctx.tier;
    ctx.rule = "2D: every euclidean symbol (own classification of all assignments with K = 0 and degrees >= 3 on all enumerated D-sets) with fixed and proptest-generated renumberings and duals; 3D: all symbols with good spherical tiles and vertex figures and branching in {1,2,3,4,6} over all enumerated 3D D-sets up to a size bound (own backtracking with own curvature / orbifold oracle), each with a renumbered or dual variant, plus the literature corpus and products (euclidean 2D symbol) x (line tiling)".into();
    ctx.assume("the crystallographic restriction and complete euclidean input are part of the generators (the routines assert them)");
    ctx.assume("products of plane groups with line groups are space groups: product symbols are euclidean independently of the crate");
    ctx.assume("the quotient of the cubic tiling of E^3 (or of a triangular / square prism tiling) by a group generated by lattice translations and isometries that map the tiling to itself is a euclidean symbol by definition");
    ctx.assume("a closed manifold homeomorphic to T^3 (T^3 # S^3 built by tile surgery) is euclidean; S^2 x S^1, RP^3 and connected sums of them are not");
    crate::props::run_regressions(ctx, "C15");

    ctx.layer("exhaustive");
    let eu = euclidean_2d_up_to(t.pick(8, 9));
    let cases2: Vec<TorCase> = eu.iter().enumerate().map(|(k, s)| TorCase { ds: s.clone(), swaps: fixed_swaps(s.size, k), dual: k % 2 == 0, known: String::new(), kind: String::new() }).collect();
    let n2 = cases2.len();
    ctx.run_par(&SUB_TOR2, cases2, Some(&format!("all {} euclidean 2D symbols (degrees >= 3) with <= {} chambers, one per isomorphism class, each with a fixed renumbering / dual variant", n2, t.pick(8, 9))));
    // euclidean symbols with large degrees: the square tiling with k = n - 1 extra vertices of degree 2 on every
    // edge (n odd) under its full symmetry group *442 - a chain of n chambers, faces are 4n-gons. Curvature by
    // hand: 1/4 + n/2 + (n-1)/2 + 1/4 - n = 0. Degrees cross 2^8 at n = 64 and 2^16 is out of reach.
    ctx.layer("large-degrees");
    let big: Vec<TorCase> = [3usize, 9, 31, 63, 65, 67, 129].iter().cloned().chain(if t == Tier::Thorough { vec![255, 257, 513] } else { vec![] })
        .flat_map(|n| {
            let mut x = DS::new(2, n);
            for d in 1..=n {
                x.op[2][d] = d;
                x.op[0][d] = if d == 1 { 1 } else if d % 2 == 0 { d + 1 } else { d - 1 };
                x.op[1][d] = if d == n { n } else if d % 2 == 1 { d + 1 } else { d - 1 };
            }
            for d in 1..=n {
                x.v[0][d] = 4;
                x.v[1][d] = if d == n { 4 } else { 1 };
            }
            debug_assert!(x.ops_are_involutions() && x.v_consistent());
            (0..2u32).map(move |k| TorCase { ds: x.clone(), swaps: if k == 0 { vec![] } else { vec![(n as u32 * 77, 5), (3, n as u32 * 13 + 1), (k, 9)] }, dual: k == 1, known: String::new(), kind: String::new() }).collect::<Vec<_>>()
        })
        .collect();
    ctx.run_par(&SUB_TOR2, big, None);
    ctx.layer("exhaustive");

    let (pool, pool_text) = symbol_pool(t.pick(4, 5), t.pick(5, 6), t.pick(20, 10));
    let mut cases3: Vec<TorCase> = vec![];
    for (k, s) in pool.into_iter().enumerate() {
        cases3.push(TorCase { swaps: fixed_swaps(s.size, k), dual: k % 2 == 1, ds: s, known: String::new(), kind: String::new() });
    }
    for (k, s) in corpus_lit().into_iter().enumerate() {
        cases3.push(TorCase { swaps: fixed_swaps(s.size, k), dual: k % 2 == 1, ds: s, known: "literature corpus".into(), kind: String::new() });
    }
    for (k, (s, why)) in products(t.pick(4, 6)).into_iter().enumerate() {
        cases3.push(TorCase { swaps: fixed_swaps(s.size, k), dual: k % 2 == 1, ds: s, known: why, kind: String::new() });
    }
    let (ncub, nman) = (t.pick(600, 6000), t.pick(3, 10));
    cases3.extend(crate::props::c17::cubic_cases(ncub, t.pick(3, 4)));
    cases3.extend(crate::props::c17::manifold_cases(nman, true));
    let n3 = cases3.len();
    ctx.run_par(&SUB_PTC, cases3.clone(), Some(&format!("{} cases: 3D symbols with spherical tiles and vertex figures and branching in {{1,2,3,4,6}}: {}; the 20 literature symbols; all products of euclidean 2D symbols with <= {} chambers with the 4 line tilings; {} quotients of the cubic tiling and of triangular / square prism tilings by space groups; cubical 3-manifolds of known topology with {} gluing choices", n3, pool_text, t.pick(4, 6), ncub, nman)));

    ctx.layer("random");
    let pool2 = Arc::new(eu);
    let sw = || prop::collection::vec((any::<u32>(), any::<u32>()), 0..8);
    ctx.run_prop(&SUB_TOR2, move || { let p = pool2.clone(); (any::<u32>(), sw(), any::<bool>()).prop_map(move |(k, swaps, dual)| TorCase { ds: p[pick_index(k, p.len())].clone(), swaps, dual, known: String::new(), kind: String::new() }) }, t.pick(1_500, 30_000));
    ctx.layer("random-space-group-quotients");
    let max_n = t.pick(3, 4);
    ctx.run_prop(&SUB_PTC, move || crate::props::c17::cubic_strategy(max_n), t.pick(1_500, 20_000));
    ctx.layer("random");
    // renumberings are spent on the cases that have a cover or are known euclidean (selection only, not an oracle)
    let pool3 = {
        use rayon::prelude::*;
        Arc::new(cases3.into_par_iter().filter(|c| !c.known.is_empty() || matches!(guarded(|| ptc(&c.ds, false)), Ok(Ok(Some(_))))).collect::<Vec<_>>())
    };
    ctx.run_prop(&SUB_PTC, move || { let p = pool3.clone(); (any::<u32>(), sw(), any::<bool>()).prop_map(move |(k, swaps, dual)| { let mut c = p[pick_index(k, p.len())].clone(); c.swaps = swaps; c.dual = dual; c }) }, t.pick(1_500, 30_000));
}

pub fn replay(ctx: &mut Ctx, sub: &str, case: &Value) -> Option<Result<(), String>> {
    Some(match sub {
        "toroidal_2d" => ctx.run_one(&SUB_TOR2, &TorCase::decode(case)?),
        "pseudo_toroidal_3d" => ctx.run_one(&SUB_PTC, &TorCase::decode(case)?),
        _ => return None,
    })
}
