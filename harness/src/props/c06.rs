//! C06 — the D-set generator enumerates every isomorphism class exactly once
use crate::ensure;
use crate::gen::dsets::*;
use crate::model::*;
use crate::oracle::iso::canonical_code;
use crate::runner::*;
use crate::util::*;
use proptest::prelude::*;
use rust_dsymbols::dsets::DSet;
use rust_dsymbols::generators::dset_generators::DSets;
use serde_json::{json, Value};
use std::collections::{BTreeMap, BTreeSet, HashMap};
use std::sync::{Mutex, OnceLock};

#[derive(Clone, Debug, Hash)]
pub struct GenCase {
    pub dim: usize,
    pub max_size: usize,
}

impl Case for GenCase {
    fn encode(&self) -> Value {
        json!({"dim": self.dim, "max_size": self.max_size})
    }
    fn decode(v: &Value) -> Option<Self> {
        Some(GenCase { dim: v.get("dim")?.as_u64()? as usize, max_size: v.get("max_size")?.as_u64()? as usize })
    }
    fn weight(&self) -> usize {
        self.max_size
    }
    fn hash64(&self) -> u64 {
        h64(self)
    }
}

/// own enumeration, cached per (dim, n): canonical code -> representative
fn own_classes(dim: usize, n: usize) -> std::sync::Arc<BTreeMap<Vec<usize>, DS>> {
    static CACHE: OnceLock<Mutex<HashMap<(usize, usize), std::sync::Arc<BTreeMap<Vec<usize>, DS>>>>> = OnceLock::new();
    let cache = CACHE.get_or_init(|| Mutex::new(HashMap::new()));
    if let Some(x) = cache.lock().unwrap().get(&(dim, n)) {
        return x.clone();
    }
    let v: BTreeMap<Vec<usize>, DS> = dsets_of_size(dim, n).into_iter().map(|ds| (canonical_code(&ds, false), ds)).collect();
    let v = std::sync::Arc::new(v);
    cache.lock().unwrap().insert((dim, n), v.clone());
    v
}

/// run the crate's generator and validate every item on its own; returns codes by size
fn run_generator(dim: usize, max_size: usize) -> Result<BTreeMap<usize, Vec<(Vec<usize>, DS)>>, String> {
    let mut by_size: BTreeMap<usize, Vec<(Vec<usize>, DS)>> = BTreeMap::new();
    for (k, s) in DSets::new(dim, max_size).enumerate() {
        ensure!(s.dim() == dim, "item {} has dimension {}", k + 1, s.dim());
        ensure!(s.size() >= 1 && s.size() <= max_size, "item {} has size {} > max_size {}", k + 1, s.size(), max_size);
        ensure!(s.set_count() == k + 1, "item {} is numbered {}", k + 1, s.set_count());
        let ds = DS::from_dset(&s);
        ensure!(ds.ops_are_involutions(), "item {}: {} is not complete / not made of involutions", k + 1, ds.text());
        ensure!(ds.is_connected(), "item {}: {} is not connected", k + 1, ds.text());
        ensure!(ds.commutes(), "item {}: {}: operations with index distance > 1 do not commute", k + 1, ds.text());
        by_size.entry(ds.size).or_default().push((canonical_code(&ds, false), ds));
    }
    Ok(by_size)
}

fn check_exact(c: &GenCase, obs: &mut Obs) -> Result<(), String> {
    let got = run_generator(c.dim, c.max_size)?;
    let mut nontrivial = false;
    for n in 1..=c.max_size {
        let own = own_classes(c.dim, n);
        let empty = vec![];
        let items = got.get(&n).unwrap_or(&empty);
        let mut seen: BTreeMap<&Vec<usize>, &DS> = BTreeMap::new();
        for (code, ds) in items {
            if let Some(prev) = seen.insert(code, ds) {
                return Err(format!("two isomorphic D-sets in the output: {} and {}", prev.text(), ds.text()));
            }
            ensure!(own.contains_key(code), "harness oracle does not know the class of generated D-set {}", ds.text());
        }
        for (code, ds) in own.iter() {
            ensure!(seen.contains_key(code), "missing isomorphism class (dim {}, size {}): no output is isomorphic to {}", c.dim, n, ds.text());
        }
        nontrivial |= own.len() >= 2;
    }
    // iterator protocol: nth / skip / step_by / take / last / count agree with repeated next(), counters included
    let total: usize = got.values().map(|v| v.len()).sum();
    if total <= 3000 {
        let (dim, n) = (c.dim, c.max_size);
        crate::util::iter_protocol(|| DSets::new(dim, n), |s| format!("{}", s), 24, &format!("DSets::new({}, {})", dim, n))?;
        obs.classify(total >= 4, "iterator protocol on >= 4 items");
    }
    obs.nontrivial(nontrivial);
    obs.class(&format!("dim {}", c.dim));
    Ok(())
}

pub const SUB_EXACT: Sub<GenCase> = Sub {
    name: "exact",
    rule: "(dim, max_size): the generator's output, item by item (complete, connected, commuting, numbered 1,2,3..), and as a set of isomorphism classes per size equal to the harness's brute-force enumeration over all tuples of involutions; non-trivial = some size <= max_size has >= 2 classes",
    check: check_exact,
    panic_discards: &[],
    journal: false,
};

/// beyond the brute-force bound: the output is irredundant (pairwise non-isomorphic)
fn check_irredundant(c: &GenCase, obs: &mut Obs) -> Result<(), String> {
    let got = run_generator(c.dim, c.max_size)?;
    let mut total = 0;
    for (_, items) in &got {
        let mut seen: BTreeMap<&Vec<usize>, &DS> = BTreeMap::new();
        for (code, ds) in items {
            if let Some(prev) = seen.insert(code, ds) {
                return Err(format!("two isomorphic D-sets in the output: {} and {}", prev.text(), ds.text()));
            }
        }
        total += items.len();
    }
    // a generator run with a smaller bound is a prefix-closed subset: same classes for every size <= max_size - 1
    if c.max_size >= 2 {
        let smaller = run_generator(c.dim, c.max_size - 1)?;
        for n in 1..c.max_size {
            let a: BTreeSet<&Vec<usize>> = got.get(&n).map(|v| v.iter().map(|x| &x.0).collect()).unwrap_or_default();
            let b: BTreeSet<&Vec<usize>> = smaller.get(&n).map(|v| v.iter().map(|x| &x.0).collect()).unwrap_or_default();
            ensure!(a == b, "classes of size {} differ between max_size {} and {}", n, c.max_size, c.max_size - 1);
        }
    }
    obs.nontrivial(total >= 2);
    obs.class(&format!("dim {}", c.dim));
    Ok(())
}

pub const SUB_IRREDUNDANT: Sub<GenCase> = Sub {
    name: "irredundant",
    rule: "(dim, max_size) beyond the brute-force bound: items valid, pairwise non-isomorphic (own canonical code), and consistent with the run for max_size - 1; non-trivial = >= 2 items",
    check: check_irredundant,
    panic_discards: &[],
    journal: false,
};

/// generator output as a set of codes, cached per (dim, max_size)
fn generator_codes(dim: usize, max_size: usize) -> Result<std::sync::Arc<BTreeSet<Vec<usize>>>, String> {
    static CACHE: OnceLock<Mutex<HashMap<(usize, usize), std::sync::Arc<BTreeSet<Vec<usize>>>>>> = OnceLock::new();
    let cache = CACHE.get_or_init(|| Mutex::new(HashMap::new()));
    if let Some(x) = cache.lock().unwrap().get(&(dim, max_size)) {
        return Ok(x.clone());
    }
    let got = run_generator(dim, max_size)?;
    let set: BTreeSet<Vec<usize>> = got.into_values().flatten().map(|x| x.0).collect();
    let set = std::sync::Arc::new(set);
    cache.lock().unwrap().insert((dim, max_size), set.clone());
    Ok(set)
}

#[derive(Clone, Debug, Hash)]
pub struct Member(pub DS, pub usize);

impl Case for Member {
    fn encode(&self) -> Value {
        json!({"dset": self.0.encode(), "max_size": self.1})
    }
    fn decode(v: &Value) -> Option<Self> {
        Some(Member(DS::decode(v.get("dset")?)?, v.get("max_size")?.as_u64()? as usize))
    }
    fn weight(&self) -> usize {
        self.0.size
    }
    fn hash64(&self) -> u64 {
        h64(&(&self.0, self.1))
    }
}

fn check_member(c: &Member, obs: &mut Obs) -> Result<(), String> {
    let ds = &c.0;
    ensure!(ds.ops_are_involutions() && ds.is_connected() && ds.commutes() && ds.size <= c.1, "harness: generated D-set is not in the domain");
    let codes = generator_codes(ds.dim, c.1)?;
    let code = canonical_code(ds, false);
    ensure!(codes.contains(&code), "no D-set produced by DSets::new({}, {}) is isomorphic to {}", ds.dim, c.1, ds.text());
    obs.nontrivial(ds.size >= 8);
    obs.class(&format!("dim {} size {}", ds.dim, ds.size));
    Ok(())
}

pub const SUB_MEMBER: Sub<Member> = Sub {
    name: "membership",
    rule: "harness-built random connected commuting D-set (constructed from random involutions and centraliser elements, any numbering): its isomorphism class occurs in the generator's output; non-trivial = size >= 8 (beyond the brute-force bound)",
    check: check_member,
    panic_discards: &[],
    journal: false,
};

pub fn run(ctx: &mut Ctx) {
    let t = ctx.tier;
    ctx.rule = "every (dimension, maximal size) pair up to the brute-force bound compared class-by-class with the harness's own enumeration of all tuples of involutions (op 0 fixed up to conjugacy, non-adjacent operations commuting, connected; canonical form = minimum BFS code over all start chambers); beyond the bound irredundancy plus membership of proptest-generated random connected commuting D-sets".into();
    ctx.assume("own enumeration fixes operation 0 to the standard involution of each cycle type (no loss of generality up to isomorphism)");
    crate::props::run_regressions(ctx, "C06");

    ctx.layer("exhaustive");
    let bounds: [(usize, usize); 6] = [(1, t.pick(11, 13)), (2, t.pick(9, 11)), (3, t.pick(7, 9)), (4, t.pick(6, 7)), (5, t.pick(5, 6)), (6, t.pick(4, 5))];
    let mut cases = vec![];
    for &(dim, maxn) in &bounds {
        for n in 1..=maxn {
            cases.push(GenCase { dim, max_size: n });
        }
    }
    // biggest first so that the cached own enumerations are built once (in parallel inside)
    for &(dim, maxn) in &bounds {
        for n in 1..=maxn {
            own_classes(dim, n);
        }
    }
    ctx.run_par(&SUB_EXACT, cases, Some(&format!("all (dim, max_size) with dim 1: <= {}, dim 2: <= {}, dim 3: <= {}, dim 4: <= {}, dim 5: <= {}, dim 6: <= {}", bounds[0].1, bounds[1].1, bounds[2].1, bounds[3].1, bounds[4].1, bounds[5].1)));

    let beyond: Vec<GenCase> = [(1usize, bounds[0].1 + 1, t.pick(18usize, 22usize)), (2, bounds[1].1 + 1, t.pick(13, 14)), (3, bounds[2].1 + 1, t.pick(10, 11)), (4, bounds[3].1 + 1, t.pick(10, 11)), (5, bounds[4].1 + 1, t.pick(10, 10)), (6, bounds[5].1 + 1, t.pick(8, 9))]
        .iter()
        .flat_map(|&(dim, lo, hi)| (lo..=hi).map(move |n| GenCase { dim, max_size: n }))
        .collect();
    ctx.run_par(&SUB_IRREDUNDANT, beyond, Some("the listed (dim, max_size) pairs beyond the brute-force bound"));
    // dimension 1 far beyond that: sizes across 64 and 128 chambers (paths and cycles; two or three sets per size)
    let long: Vec<GenCase> = [63usize, 64, 65, 66, 80].iter().cloned().chain(if t == Tier::Thorough { vec![127, 128, 129, 130, 200, 260] } else { vec![129] }).map(|n| GenCase { dim: 1, max_size: n }).collect();
    ctx.run_par(&SUB_IRREDUNDANT, long, Some("dimension 1 with size bounds across 64 and 128 (thorough: 256) chambers"));

    ctx.layer("random");
    let n = t.pick(20_000u32, 300_000u32);
    let (m1, m2, m3) = (t.pick(18usize, 22usize), t.pick(13usize, 14usize), t.pick(10usize, 11usize));
    ctx.run_prop(&SUB_MEMBER, || (connected_dset_strategy(1, 2..=m1), swaps()).prop_map(move |(ds, sw)| Member(ds.renumbered(&perm_from_swaps(ds.size, &sw)), m1)), n / 4);
    ctx.run_prop(&SUB_MEMBER, || (connected_dset_strategy(2, 7..=m2), swaps()).prop_map(move |(ds, sw)| Member(ds.renumbered(&perm_from_swaps(ds.size, &sw)), m2)), n);
    ctx.run_prop(&SUB_MEMBER, || (connected_dset_strategy(3, 6..=m3), swaps()).prop_map(move |(ds, sw)| Member(ds.renumbered(&perm_from_swaps(ds.size, &sw)), m3)), n);
    let (m4, m5, m6) = (t.pick(10usize, 11usize), 10usize, t.pick(8usize, 9usize));
    ctx.run_prop(&SUB_MEMBER, || (connected_dset_strategy(4, 5..=m4), swaps()).prop_map(move |(ds, sw)| Member(ds.renumbered(&perm_from_swaps(ds.size, &sw)), m4)), n / 4);
    ctx.run_prop(&SUB_MEMBER, || (connected_dset_strategy(5, 4..=m5), swaps()).prop_map(move |(ds, sw)| Member(ds.renumbered(&perm_from_swaps(ds.size, &sw)), m5)), n / 4);
    ctx.run_prop(&SUB_MEMBER, || (connected_dset_strategy(6, 4..=m6), swaps()).prop_map(move |(ds, sw)| Member(ds.renumbered(&perm_from_swaps(ds.size, &sw)), m6)), n / 4);
}

pub fn swaps() -> impl Strategy<Value = Vec<(u32, u32)>> {
    prop::collection::vec((any::<u32>(), any::<u32>()), 0..12)
}

pub fn replay(ctx: &mut Ctx, sub: &str, case: &Value) -> Option<Result<(), String>> {
    Some(match sub {
        "exact" => ctx.run_one(&SUB_EXACT, &GenCase::decode(case)?),
        "irredundant" => ctx.run_one(&SUB_IRREDUNDANT, &GenCase::decode(case)?),
        "membership" => ctx.run_one(&SUB_MEMBER, &Member::decode(case)?),
        _ => return None,
    })
}
