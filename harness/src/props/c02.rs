//! C02 — basic D-set queries agree with their definitions in every representation
use crate::ensure;
use crate::gen::dsets::dsets_up_to;
use crate::gen::dsyms::*;
use crate::model::*;
use crate::runner::*;
use crate::util::*;
use proptest::prelude::*;
use rust_dsymbols::derived::{as_dset, as_dsym, as_partial_dsym, build_set, build_sym_using_ms, build_sym_using_vs, canonical, dual, minimal_image, oriented_cover, subsymbol};
use rust_dsymbols::dsets::{DSet, PartialDSet, Sign, SimpleDSet};
use rust_dsymbols::dsyms::{DSym, PartialDSym, SimpleDSym};
use serde_json::{json, Value};
use std::collections::{BTreeMap, BTreeSet};

#[derive(Clone, Debug, Hash)]
pub struct Query {
    pub ds: DS,
    /// index subsets and seed lists to traverse; empty = derive all small ones from the symbol
    pub indices: Vec<usize>,
    pub seeds: Vec<usize>,
    /// pairs of chambers whose operation entries are removed (PartialDSet only)
    pub holes: Vec<(usize, usize)>,
}

impl Case for Query {
    fn encode(&self) -> Value {
        json!({"symbol": self.ds.encode(), "indices": self.indices, "seeds": self.seeds, "holes": self.holes.iter().map(|h| json!([h.0, h.1])).collect::<Vec<_>>()})
    }
    fn decode(v: &Value) -> Option<Self> {
        Some(Query {
            ds: DS::decode(v.get("symbol")?)?,
            indices: dec_usizes(v.get("indices")?)?,
            seeds: dec_usizes(v.get("seeds")?)?,
            holes: v.get("holes").and_then(|h| h.as_array()).map(|a| a.iter().filter_map(|p| { let p = dec_usizes(p)?; Some((*p.first()?, *p.get(1)?)) }).collect()).unwrap_or_default(),
        })
    }
    fn weight(&self) -> usize {
        self.ds.size
    }
    fn hash64(&self) -> u64 {
        h64(self)
    }
}

// ---------------------------------------------------------------------------
// model answers

fn model_r(ds: &DS, i: usize, j: usize, d: usize) -> Option<usize> {
    if i > ds.dim || j > ds.dim || d < 1 || d > ds.size {
        return None;
    }
    // length of the orbit of d under op_j o op_i, by walking; None if the walk leaves the defined part
    let mut e = d;
    let mut r = 0;
    loop {
        let a = ds.op[i][e];
        if a == 0 {
            return None;
        }
        let b = ds.op[j][a];
        if b == 0 {
            return None;
        }
        e = b;
        r += 1;
        if e == d {
            return Some(r);
        }
        if r > 4 * ds.size + 4 {
            return None;
        }
    }
}

fn model_v(ds: &DS, i: usize, j: usize, d: usize) -> Option<usize> {
    if i > ds.dim || j > ds.dim || d < 1 || d > ds.size {
        None
    } else if i == j {
        Some(1)
    } else if i + 1 == j || j + 1 == i {
        Some(ds.v[i.min(j)][d])
    } else {
        // non-adjacent operations commute: the orbit has length 1 or 2 and m = 2
        Some(2 / model_r(ds, i, j, d)?)
    }
}

/// proper 2-colouring ignoring loops, if one exists
fn two_colouring(ds: &DS) -> Option<Vec<u8>> {
    let mut col = vec![0u8; ds.size + 1];
    for s in 1..=ds.size {
        if col[s] != 0 {
            continue;
        }
        col[s] = 1;
        let mut stack = vec![s];
        while let Some(d) = stack.pop() {
            for i in 0..=ds.dim {
                let e = ds.op[i][d];
                if e == 0 || e == d {
                    continue;
                }
                if col[e] == 0 {
                    col[e] = 3 - col[d];
                    stack.push(e);
                } else if col[e] == col[d] {
                    return None;
                }
            }
        }
    }
    Some(col)
}

// ---------------------------------------------------------------------------
// checks generic over the representation

fn check_dset_queries<T: DSet>(t: &T, ds: &DS, name: &str, _complete_expected: bool) -> Result<(), String> {
    ensure!(t.size() == ds.size && t.dim() == ds.dim, "{}: size/dim = {}/{}, expected {}/{}", name, t.size(), t.dim(), ds.size, ds.dim);
    ensure!(t.elements().collect::<Vec<_>>() == (1..=ds.size).collect::<Vec<_>>(), "{}: elements()", name);
    ensure!(t.indices().collect::<Vec<_>>() == (0..=ds.dim).collect::<Vec<_>>(), "{}: indices()", name);
    for i in 0..=ds.dim + 2 {
        for d in 0..=ds.size + 2 {
            let expect = if i <= ds.dim && d >= 1 && d <= ds.size && ds.op[i][d] != 0 { Some(ds.op[i][d]) } else { None };
            let got = t.op(i, d);
            ensure!(got == expect, "{}: op({}, {}) = {:?}, expected {:?}", name, i, d, got, expect);
            if let Some(e) = got {
                ensure!(t.op(i, e) == Some(d), "{}: op {} is not an involution at {}", name, i, d);
            }
        }
    }
    for i in 0..=ds.dim + 2 {
        for j in 0..=ds.dim + 2 {
            for d in 0..=ds.size + 2 {
                let expect = model_r(ds, i, j, d);
                let got = t.r(i, j, d);
                ensure!(got == expect, "{}: r({}, {}, {}) = {:?}, orbit length by walking = {:?}", name, i, j, d, got, expect);
                let m = t.m(i, j, d);
                let in_range = i <= ds.dim && j <= ds.dim && d >= 1 && d <= ds.size;
                if !in_range {
                    ensure!(m.is_none(), "{}: m({}, {}, {}) = {:?} for out-of-range arguments", name, i, j, d, m);
                } else if expect.is_some() {
                    ensure!(m.is_some(), "{}: m({}, {}, {}) = None for in-range arguments", name, i, j, d);
                }
            }
        }
    }
    ensure!(t.is_complete() == ((0..=ds.dim).all(|i| (1..=ds.size).all(|d| ds.op[i][d] != 0))), "{}: is_complete() = {}", name, t.is_complete());
    // walk
    for d in 1..=ds.size {
        let path: Vec<usize> = (0..=ds.dim).chain(0..=ds.dim).collect();
        let mut e = Some(d);
        for &i in &path {
            e = e.and_then(|x| if ds.op[i][x] == 0 { None } else { Some(ds.op[i][x]) });
        }
        ensure!(t.walk(d, path.iter().cloned()) == e, "{}: walk({}, {:?})", name, d, path);
    }
    Ok(())
}

fn check_dsym_queries<T: DSym>(t: &T, ds: &DS, name: &str) -> Result<(), String> {
    for i in 0..=ds.dim + 2 {
        for j in 0..=ds.dim + 2 {
            for d in 0..=ds.size + 2 {
                let (er, ev) = (model_r(ds, i, j, d), model_v(ds, i, j, d));
                let em = match (er, ev) {
                    (Some(r), Some(v)) => Some(r * v),
                    _ => None,
                };
                let (gv, gm, gr) = (t.v(i, j, d), t.m(i, j, d), t.r(i, j, d));
                ensure!(gv == ev, "{}: v({}, {}, {}) = {:?}, expected {:?}", name, i, j, d, gv, ev);
                ensure!(gm == em, "{}: m({}, {}, {}) = {:?}, expected r * v = {:?}", name, i, j, d, gm, em);
                // symmetry and constancy on the orbit
                ensure!(t.v(j, i, d) == gv && t.m(j, i, d) == gm && t.r(j, i, d) == gr, "{}: r/v/m not symmetric in ({}, {}) at {}", name, i, j, d);
                if er.is_some() {
                    for e in [ds.op[i][d], ds.op[j][d]] {
                        ensure!(t.r(i, j, e) == gr && t.v(i, j, e) == gv && t.m(i, j, e) == gm, "{}: r/v/m({}, {}) differ between chambers {} and {} of one orbit", name, i, j, d, e);
                    }
                }
            }
        }
    }
    Ok(())
}

fn check_traversal<T: DSet>(t: &T, ds: &DS, name: &str, indices: &[usize], seeds: &[usize]) -> Result<(), String> {
    let comps = ds.components(indices);
    let mut comp_of = vec![usize::MAX; ds.size + 1];
    for (k, c) in comps.iter().enumerate() {
        for &d in c {
            comp_of[d] = k;
        }
    }
    let items: Vec<(Option<usize>, usize, usize)> = t.traversal(indices.iter().cloned(), seeds.iter().cloned()).collect();
    let touched: BTreeSet<usize> = seeds.iter().map(|&s| comp_of[s]).collect();
    let mut rooted: BTreeSet<usize> = BTreeSet::new();
    let mut targets: BTreeSet<usize> = BTreeSet::new();
    let mut edges: BTreeMap<(usize, usize, usize), usize> = BTreeMap::new();
    let mut roots = vec![];
    let ctx = |k: usize| format!("{}: traversal({:?}, {:?}) item #{} of {:?}", name, indices, seeds, k, items);
    for (k, &(oi, d, e)) in items.iter().enumerate() {
        ensure!(d >= 1 && d <= ds.size && e >= 1 && e <= ds.size, "{}: chamber out of range", ctx(k));
        ensure!(touched.contains(&comp_of[d]), "{}: chamber {} lies outside the components of the seeds", ctx(k), d);
        match oi {
            None => {
                ensure!(d == e, "{}: root item with different source and target", ctx(k));
                ensure!(seeds.contains(&d), "{}: root {} is not a seed", ctx(k), d);
                ensure!(rooted.insert(comp_of[d]), "{}: second root in one component", ctx(k));
                ensure!(!comps[comp_of[d]].iter().any(|x| targets.contains(x)), "{}: component was entered before its root item", ctx(k));
                roots.push(d);
            }
            Some(i) => {
                ensure!(indices.contains(&i), "{}: index {} was not requested", ctx(k), i);
                ensure!(ds.op[i][d] == e, "{}: target is not op({}, {}) = {}", ctx(k), i, d, ds.op[i][d]);
                ensure!(targets.contains(&d), "{}: source {} did not occur earlier as a target", ctx(k), d);
                *edges.entry((i, d.min(e), d.max(e))).or_insert(0) += 1;
            }
        }
        targets.insert(e);
    }
    for &c in &touched {
        ensure!(rooted.contains(&c), "{}: traversal({:?}, {:?}) has no root item for the component of {}", name, indices, seeds, comps[c][0]);
        for &d in &comps[c] {
            for &i in indices {
                let e = ds.op[i][d];
                if d <= e {
                    let n = edges.get(&(i, d, e)).cloned().unwrap_or(0);
                    ensure!(n == 1, "{}: traversal({:?}, {:?}) reports the {}-edge {{{}, {}}} {} times: {:?}", name, indices, seeds, i, d, e, n, items);
                }
            }
        }
    }
    // orbit representatives: the earliest seed of each component, once, in seed order
    let mut seen = BTreeSet::new();
    let expect: Vec<usize> = seeds.iter().cloned().filter(|&s| seen.insert(comp_of[s])).collect();
    let got = t.orbit_reps(indices.iter().cloned(), seeds.iter().cloned());
    ensure!(got == expect, "{}: orbit_reps({:?}, {:?}) = {:?}, expected {:?}", name, indices, seeds, got, expect);
    ensure!(roots == expect, "{}: traversal roots {:?} differ from the earliest seeds {:?}", name, roots, expect);
    // orbits = reachability
    for &s in seeds.iter().take(3) {
        let o = t.orbit(indices.iter().cloned(), s);
        ensure!(o == comps[comp_of[s]], "{}: orbit({:?}, {}) = {:?}, reachable set = {:?}", name, indices, s, o, comps[comp_of[s]]);
    }
    Ok(())
}

fn check_predicates<T: DSet>(t: &T, ds: &DS, name: &str) -> Result<(), String> {
    let all = ds.all_indices();
    let connected = ds.components(&all).len() == 1;
    ensure!(t.is_connected() == connected, "{}: is_connected() = {}, expected {}", name, t.is_connected(), connected);
    let loopless = (0..=ds.dim).all(|i| (1..=ds.size).all(|d| ds.op[i][d] != d));
    ensure!(t.is_loopless() == loopless, "{}: is_loopless() = {}, expected {}", name, t.is_loopless(), loopless);
    let col = two_colouring(ds);
    ensure!(t.is_weakly_oriented() == col.is_some(), "{}: is_weakly_oriented() = {}, chamber graph without loops is {}bipartite", name, t.is_weakly_oriented(), if col.is_some() { "" } else { "not " });
    ensure!(t.is_oriented() == (col.is_some() && loopless), "{}: is_oriented() = {}", name, t.is_oriented());
    let ori = t.partial_orientation();
    ensure!(ori.len() == ds.size + 1, "{}: partial_orientation() has length {}", name, ori.len());
    if col.is_some() {
        for d in 1..=ds.size {
            ensure!(ori[d] != Sign::ZERO, "{}: partial_orientation() leaves chamber {} unsigned", name, d);
            for i in 0..=ds.dim {
                let e = ds.op[i][d];
                if e != d {
                    ensure!(ori[e] != ori[d], "{}: partial_orientation() gives chambers {} and {} = op({}, {}) the same sign although the graph is bipartite", name, d, e, i, d);
                }
            }
        }
    }
    ensure!(t.full_orbit(1) == ds.component(&all, 1), "{}: full_orbit(1)", name);
    let ft: Vec<_> = t.full_traversal().collect();
    let tt: Vec<_> = t.traversal(0..=ds.dim, 1..=ds.size).collect();
    ensure!(ft == tt, "{}: full_traversal() differs from traversal(all indices, all chambers)", name);
    for i in 0..=ds.dim {
        for j in 0..=ds.dim {
            let expect: Vec<usize> = ds.components(&[i, j]).iter().map(|c| c[0]).collect();
            let got = t.orbit_reps_2d(i, j);
            ensure!(got == expect, "{}: orbit_reps_2d({}, {}) = {:?}, expected {:?}", name, i, j, got, expect);
        }
    }
    Ok(())
}

/// a value returned by one of the crate's constructors must answer every query according to the
/// definitions applied to its own tables (orbit lengths by walking, m = r * v, constancy on orbits),
/// also after conversion, cloning and a round trip through its text
fn check_self_consistent(y: &PartialDSym, name: &str) -> Result<DS, String> {
    let m = DS::from_dsym(y);
    ensure!(m.is_complete() && m.ops_are_involutions(), "{}: operations of the returned value are not involutions on 1..size", name);
    ensure!(m.v_consistent() && (0..m.dim).all(|i| (1..=m.size).all(|d| m.v[i][d] >= 1)), "{}: branching numbers of the returned value are undefined or not constant on an orbit", name);
    check_dset_queries(y, &m, name, true)?;
    check_dsym_queries(y, &m, name)?;
    let s = SimpleDSym::from(y.clone());
    check_dsym_queries(&s, &m, &format!("SimpleDSym({})", name))?;
    check_predicates(y, &m, name)?;
    Ok(m)
}

/// a derived value with an exact model: tables equal the model's, and r / v / m follow them
fn check_exact(y: &PartialDSym, exp: &DS, name: &str, of: &DS) -> Result<(), String> {
    let m = DS::from_dsym(y);
    ensure!(m == *exp, "{} of {} is {}, expected {}", name, of.short(), m.short(), exp.short());
    check_dsym_queries(y, exp, name)
}

/// derived values: the output of one public constructor fed into the queries and into other constructors
fn check_derived(c: &Query, psym: &PartialDSym, ssym: &SimpleDSym, obs: &mut Obs) -> Result<(), String> {
    let ds = &c.ds;
    let n = ds.dim;
    // dual: exact model
    let du = guarded(|| dual(psym)).map_err(|m| format!("dual panics: {}", m))?;
    check_exact(&du, &ds.dual(), "dual(PartialDSym)", ds)?;
    let du2 = dual(ssym);
    ensure!(DS::from_dsym(&du2) == ds.dual(), "dual(SimpleDSym) is {}, expected {}", DS::from_dsym(&du2).short(), ds.dual().short());
    let back = dual(&SimpleDSym::from(du.clone()));
    check_exact(&back, ds, "dual(dual(x))", ds)?;
    // build_* with the model's tables: exact model
    let set = guarded(|| build_set(ds.size, n, |i, d| Some(ds.op[i][d]))).map_err(|m| format!("build_set panics: {}", m))?;
    let by_v = build_sym_using_vs(set.clone(), |i, d| Some(ds.v[i][d]));
    check_exact(&by_v, ds, "build_sym_using_vs with the tables", ds)?;
    let by_m = build_sym_using_ms(set, |i, d| Some(ds.m(i, d)));
    check_exact(&by_m, ds, "build_sym_using_ms with the degrees", ds)?;
    // subsymbol: exact model (order-preserving relabelling of the component)
    let mut subsets: Vec<(Vec<usize>, usize)> = vec![];
    if c.indices.is_empty() {
        for s in subsets_of(n + 1).into_iter().filter(|s| s.len() >= 2) {
            subsets.push((s.clone(), 1));
            subsets.push((s, ds.size));
        }
    } else {
        let idx: Vec<usize> = c.indices.iter().cloned().filter(|&i| i <= n).collect::<BTreeSet<_>>().into_iter().collect();
        // a D-set has dimension >= 1 (PartialDSet::new asserts it), so a subsymbol needs two indices
        if idx.len() >= 2 {
            for &s in &c.seeds {
                if s >= 1 && s <= ds.size {
                    subsets.push((idx.clone(), s));
                }
            }
        }
    }
    let pick = c.hash64() as usize;
    let nsub = subsets.len().max(1);
    for (idx, seed) in (0..subsets.len().min(3)).map(|k| &subsets[(pick + k * (nsub / 3).max(1)) % nsub]) {
        let comp = ds.component(idx, *seed);
        let mut lab = vec![0usize; ds.size + 1];
        for (k, &d) in comp.iter().enumerate() {
            lab[d] = k + 1;
        }
        let mut exp = DS::new(idx.len() - 1, comp.len());
        for (k, &i) in idx.iter().enumerate() {
            for &d in &comp {
                exp.op[k][lab[d]] = lab[ds.op[i][d]];
            }
        }
        for k in 0..idx.len() - 1 {
            for &d in &comp {
                exp.v[k][lab[d]] = model_v(ds, idx[k], idx[k + 1], d).unwrap();
            }
        }
        let name = format!("subsymbol({:?}, {})", idx, seed);
        let sub = guarded(|| subsymbol(psym, idx.iter().cloned(), *seed)).map_err(|m| format!("{} panics: {}", name, m))?;
        check_exact(&sub, &exp, &name, ds)?;
        check_dsym_queries(&SimpleDSym::from(sub.clone()), &exp, &format!("SimpleDSym({})", name))?;
        let sub2 = subsymbol(ssym, idx.iter().cloned(), *seed);
        ensure!(DS::from_dsym(&sub2) == exp, "{} of the SimpleDSym {} is {}, expected {}", name, ds.short(), DS::from_dsym(&sub2).short(), exp.short());
        obs.classify(comp.len() < ds.size && comp.len() > 1, "subsymbol on a proper component with > 1 chambers");
    }
    // oriented cover, canonical form, minimal image: the returned values answer the queries consistently
    // (that they are the right symbols is the subject of C03 - C05)
    let oc = guarded(|| oriented_cover(psym)).map_err(|m| format!("oriented_cover panics: {}", m))?;
    let om = check_self_consistent(&oc, "oriented_cover(x)")?;
    ensure!(om.size == ds.size || om.size == 2 * ds.size, "oriented_cover(x) has {} chambers, x has {}", om.size, ds.size);
    // chamber d of the result lies over chamber (d - 1) mod size + 1 (documented numbering of derived::cover):
    // same degrees there, whatever their size
    for i in 0..n {
        for d in 1..=om.size {
            let b = (d - 1) % ds.size + 1;
            ensure!(om.m(i, d) == ds.m(i, b), "oriented_cover(x): m({}, {}, {}) = {}, the chamber {} it lies over has degree {}", i, i + 1, d, om.m(i, d), b, ds.m(i, b));
        }
    }
    let od = dual(&oc);
    ensure!(DS::from_dsym(&od) == om.dual(), "dual(oriented_cover(x)) is not the dual of oriented_cover(x)");
    if ds.is_connected() && ds.size <= 300 {
        let ca = guarded(|| canonical(ssym)).map_err(|m| format!("canonical panics: {}", m))?;
        let cm = check_self_consistent(&ca, "canonical(x)")?;
        ensure!(cm.size == ds.size && cm.dim == n, "canonical(x) has size / dim {} / {}", cm.size, cm.dim);
        let mi = guarded(|| minimal_image(psym)).map_err(|m| format!("minimal_image panics: {}", m))?;
        let mm = check_self_consistent(&mi, "minimal_image(x)")?;
        ensure!(ds.size % mm.size == 0, "minimal_image(x) has {} chambers, x has {}", mm.size, ds.size);
        let cd = canonical(&dual(&mi));
        check_exact(&cd, &DS::from_dsym(&cd), "canonical(dual(minimal_image(x)))", ds)?;
        obs.classify(mm.size < ds.size, "derived: proper minimal image");
    }
    Ok(())
}

fn subsets_of(n: usize) -> Vec<Vec<usize>> {
    (0u32..(1 << n)).map(|m| (0..n).filter(|k| m >> k & 1 == 1).collect()).collect()
}

fn check_query(c: &Query, obs: &mut Obs) -> Result<(), String> {
    let ds = &c.ds;
    ensure!(ds.is_complete() && ds.ops_are_involutions() && ds.v_consistent() && ds.commutes(), "harness: case is not a valid complete commuting D-symbol");
    // the representations
    let pset: PartialDSet = ds.to_partial_dset();
    let sset: SimpleDSet = ds.to_simple_dset();
    let psym: PartialDSym = ds.to_partial_fresh();
    // the same value reached through a history: other branching numbers, every query, then set_v
    let hist: PartialDSym = ds.to_partial_with_history();
    let ssym: SimpleDSym = ds.to_simple();
    let shist: SimpleDSym = SimpleDSym::from(hist.clone());
    let parsed: PartialDSym = ds.text().parse().map_err(|e| format!("cannot parse own text {}: {}", ds.text(), e))?;
    let conv1 = as_partial_dsym(&ssym);
    let conv2 = as_dset(&ssym);
    let dset_model = ds.dset();

    check_dset_queries(&pset, ds, "PartialDSet", true)?;
    check_dset_queries(&sset, ds, "SimpleDSet", true)?;
    check_dset_queries(&psym, ds, "PartialDSym(built)", true)?;
    check_dset_queries(&parsed, ds, "PartialDSym(parsed)", true)?;
    check_dset_queries(&hist, ds, "PartialDSym(re-assigned through set_v after having been read)", true)?;
    check_dsym_queries(&hist, ds, "PartialDSym(re-assigned through set_v after having been read)")?;
    check_dsym_queries(&shist, ds, "SimpleDSym(from a re-assigned PartialDSym)")?;
    ensure!(hist == psym, "a PartialDSym that was re-assigned through set_v differs (==) from a freshly built one");
    ensure!(format!("{}", hist) == format!("{}", psym), "a PartialDSym that was re-assigned through set_v prints as {}, a freshly built one as {}", hist, psym);
    // assembled with the public from_fields, 2-orbits numbered in reverse
    let fields: PartialDSym = ds.to_partial_from_fields_reversed(1);
    check_dset_queries(&fields, ds, "PartialDSym::from_fields(orbits numbered in reverse)", true)?;
    check_dsym_queries(&fields, ds, "PartialDSym::from_fields(orbits numbered in reverse)")?;
    check_dsym_queries(&SimpleDSym::from(fields.clone()), ds, "SimpleDSym(PartialDSym::from_fields(orbits numbered in reverse))")?;
    ensure!(format!("{}", fields) == format!("{}", psym), "PartialDSym::from_fields with orbits numbered in reverse prints as {}, a freshly built one as {}", fields, psym);
    check_dset_queries(&ssym, ds, "SimpleDSym", true)?;
    check_dset_queries(&conv1, ds, "as_partial_dsym(SimpleDSym)", true)?;
    check_dset_queries(&conv2, ds, "as_dset(SimpleDSym)", true)?;
    check_dsym_queries(&psym, ds, "PartialDSym(built)")?;
    check_dsym_queries(&parsed, ds, "PartialDSym(parsed)")?;
    check_dsym_queries(&ssym, ds, "SimpleDSym")?;
    check_dsym_queries(&conv1, ds, "as_partial_dsym(SimpleDSym)")?;
    check_dsym_queries(&as_dsym(&sset), &dset_model, "as_dsym(SimpleDSet)")?;
    ensure!(DS::from_dsym(&conv1) == *ds, "as_partial_dsym changes the symbol");

    check_derived(c, &psym, &ssym, obs)?;
    check_predicates(&pset, ds, "PartialDSet")?;
    check_predicates(&sset, ds, "SimpleDSet")?;
    check_predicates(&psym, ds, "PartialDSym")?;
    check_predicates(&ssym, ds, "SimpleDSym")?;

    // traversals
    let mut index_sets: Vec<Vec<usize>> = vec![];
    let mut seed_lists: Vec<Vec<usize>> = vec![];
    if c.indices.is_empty() && c.seeds.is_empty() {
        index_sets = subsets_of(ds.dim + 1).into_iter().filter(|s| !s.is_empty()).collect();
        if ds.size <= 4 {
            for a in 1..=ds.size {
                seed_lists.push(vec![a]);
                for b in 1..=ds.size {
                    seed_lists.push(vec![a, b]);
                    if ds.size <= 3 {
                        for cc in 1..=ds.size {
                            seed_lists.push(vec![a, b, cc]);
                        }
                    }
                }
            }
        } else {
            seed_lists.push((1..=ds.size).collect());
            seed_lists.push((1..=ds.size).rev().collect());
            seed_lists.push(vec![ds.size, 1]);
            seed_lists.push(vec![(ds.size + 1) / 2]);
        }
    } else {
        index_sets.push(c.indices.iter().cloned().filter(|&i| i <= ds.dim).collect::<BTreeSet<_>>().into_iter().collect());
        seed_lists.push(c.seeds.iter().cloned().filter(|&s| s >= 1 && s <= ds.size).collect());
        // an index order other than ascending must not matter for the laws
        let mut rev = index_sets[0].clone();
        rev.reverse();
        index_sets.push(rev);
        // the list as generated: arbitrary order, possibly with repeated indices (the laws speak about
        // the set of operations, so a repeated index must change nothing)
        let raw: Vec<usize> = c.indices.iter().cloned().filter(|&i| i <= ds.dim).collect();
        if raw != index_sets[0] && raw != index_sets[1] {
            index_sets.push(raw);
        }
    }
    for idx in &index_sets {
        for seeds in &seed_lists {
            check_traversal(&psym, ds, "PartialDSym", idx, seeds)?;
            check_traversal(&sset, ds, "SimpleDSet", idx, seeds)?;
        }
    }
    if let (Some(idx), Some(seeds)) = (index_sets.first(), seed_lists.first()) {
        check_traversal(&pset, ds, "PartialDSet", idx, seeds)?;
        check_traversal(&ssym, ds, "SimpleDSym", idx, seeds)?;
    }

    // incomplete PartialDSet
    if !c.holes.is_empty() {
        let mut holed = ds.clone();
        for &(i, d) in &c.holes {
            let (i, d) = (i % (ds.dim + 1), 1 + d % ds.size);
            let e = holed.op[i][d];
            if e != 0 {
                holed.op[i][d] = 0;
                holed.op[i][e] = 0;
            }
        }
        let p = holed.to_partial_dset();
        check_dset_queries(&p, &holed, "PartialDSet(incomplete)", true)?;
        obs.class("incomplete PartialDSet");
    }

    // a PartialDSet built through another legal construction path: new(a) + grow(size - a), then the
    // same set() calls; is_complete must follow the definition at every stage
    {
        let a = 1 + (ds.size * 5 + c.seeds.len() * 3 + c.indices.len()) % ds.size;
        let mut p = rust_dsymbols::dsets::PartialDSet::new(a, ds.dim);
        if ds.size > a {
            p.grow(ds.size - a);
        }
        ensure!(p.size() == ds.size, "PartialDSet(grown): size() = {} after new({}) + grow({})", p.size(), a, ds.size - a);
        ensure!(!p.is_complete(), "PartialDSet(grown): is_complete() is true right after new({}) + grow({}) with every operation undefined", a, ds.size - a);
        let mut todo: Vec<(usize, usize, usize)> = vec![];
        for i in 0..=ds.dim {
            for d in 1..=ds.size {
                if ds.op[i][d] >= d {
                    todo.push((i, d, ds.op[i][d]));
                }
            }
        }
        let half = todo.len() / 2;
        for (k, &(i, d, e)) in todo.iter().enumerate() {
            if k == half || k + 1 == todo.len() {
                ensure!(!p.is_complete(), "PartialDSet(grown by {}): is_complete() is true with {} of {} edges still undefined", ds.size - a, todo.len() - k, todo.len());
            }
            guarded(|| p.set(i, d, e)).map_err(|m| format!("PartialDSet(grown by {}): set({}, {}, {}) panics: {}", ds.size - a, i, d, e, m))?;
        }
        check_dset_queries(&p, ds, "PartialDSet(grown)", true)?;
        obs.classify(ds.size - a >= 2, "PartialDSet grown by >= 2 chambers");
    }

    let some_r = (0..ds.dim).any(|i| (1..=ds.size).any(|d| ds.r(i, i + 1, d) > 1));
    obs.nontrivial(true);
    obs.classify(ds.size >= 3 && some_r, "size >= 3 with an orbit of length > 1");
    obs.classify(!ds.is_connected(), "disconnected");
    obs.classify(two_colouring(ds).is_none(), "not bipartite");
    obs.classify(ds.size >= 20, ">= 20 chambers");
    obs.class(&format!("dim {}", ds.dim));
    Ok(())
}

pub const SUB_QUERY: Sub<Query> = Sub {
    name: "queries",
    rule: "complete commuting D-symbol (any numbering, possibly disconnected) materialised as PartialDSet, SimpleDSet, PartialDSym (built and parsed), SimpleDSym and through the conversion helpers: op/r/v/m for all (i,j) in [0,dim+2]^2 and d in [0,size+2] against the table model (None exactly out of range), symmetry, constancy on orbits, predicates against own BFS 2-colouring, traversal / orbit / orbit_reps laws for index subsets and seed lists; every case probes out-of-range arguments, so every case is non-trivial; distinct = distinct (symbol, indices, seeds)",
    check: check_query,
    panic_discards: &[],
    journal: false,
};

pub fn run(ctx: &mut Ctx) {
    let t = ctx.tier;
    ctx.rule = "every branching assignment (v <= 2, capped per D-set) on every D-set of the brute-force enumeration (dim 1-3) with all non-empty index subsets and all seed lists up to length 2-3 (exhaustive for size <= 4), plus proptest-generated renumbered symbols, random (possibly disconnected) symbols with up to 60 chambers with random index subsets / seed lists, and PartialDSets with removed entries; oracle = own table walk, BFS components and 2-colouring".into();
    ctx.assume("only symbols whose non-adjacent operations commute are compared (the r/v overrides for |i-j| > 1 assume it)");
    ctx.assume("traversal order is not asserted, only the laws; index lists are lists over 0..=dim in any order, possibly with repeated entries (the laws are about the set of operations); seeds lie in 1..=size and may repeat");
    ctx.assume("plain D-sets have no v; their m is the documented constant and is only probed for None / no panic");
    crate::props::run_regressions(ctx, "C02");

    ctx.layer("exhaustive");
    let dsets: Vec<DS> = { let mut v = dsets_up_to(2, t.pick(5, 7)); v.extend(dsets_up_to(3, t.pick(4, 5))); v.extend(dsets_up_to(1, t.pick(6, 8))); v.extend(dsets_up_to(4, t.pick(3, 4))); v.extend(dsets_up_to(5, 3)); v };
    let mut cases = vec![];
    let mut complete = true;
    for ds in &dsets {
        let (syms, all) = assignments(ds, 2, t.pick(64, 512));
        complete &= all;
        for s in syms {
            cases.push(Query { ds: s, indices: vec![], seeds: vec![], holes: vec![] });
        }
    }
    let note = format!("all branching assignments v <= 2 on all {} D-sets (dim 2 size <= {}, dim 3 size <= {}, dim 1 size <= {}, dim 4 and 5 with 3-4 chambers) x all non-empty index subsets x seed lists", dsets.len(), t.pick(5, 7), t.pick(4, 5), t.pick(6, 8));
    ctx.run_par(&SUB_QUERY, cases, if complete { Some(&note) } else { None });
    if !complete {
        ctx.note(format!("{} (capped per D-set)", note));
    }

    ctx.layer("random");
    let n = t.pick(20_000u32, 1_500_000u32);
    let q = |s: BoxedStrategy<DS>| {
        (s, prop::collection::vec(0usize..7, 0..6), prop::collection::vec(1usize..80, 0..5), prop::collection::vec((0usize..7, 0usize..80), 0..3))
            .prop_map(|(ds, indices, seeds, holes)| {
                let size = ds.size;
                let seeds = if indices.is_empty() { vec![] } else { seeds.into_iter().map(|s| 1 + (s - 1) % size).collect() };
                let indices = if seeds.is_empty() { vec![] } else { indices };
                Query { ds, indices, seeds, holes }
            })
    };
    ctx.run_prop(&SUB_QUERY, || q(prop_oneof![random_symbol_any(2, 1..=24), random_symbol_any(3, 1..=24), random_symbol_any(1, 1..=16)].boxed()), n);
    ctx.run_prop(&SUB_QUERY, || q(prop_oneof![random_symbol(2, 25..=60), random_symbol(3, 25..=60)].boxed()), n / 10);
    // higher dimensions; sizes across 64 / 128 / 256 / 1024 chambers
    ctx.run_prop(&SUB_QUERY, || q(prop_oneof![random_symbol_any(4, 1..=20), random_symbol_any(5, 1..=16), random_symbol_any(6, 1..=12), random_symbol(4, 21..=70)].boxed()), n / 4);
    ctx.run_prop(&SUB_QUERY, || q(prop_oneof![random_symbol(2, 61..=70), random_symbol(3, 120..=135), random_symbol(2, 250..=262), random_symbol(3, 1020..=1030)].boxed()), n / 200);
    // branching numbers and degrees across 2^8 and 2^16 (a few orbits scaled up)
    let scaled = |s: BoxedStrategy<DS>| {
        (s, any::<u64>()).prop_map(|(mut ds, h)| {
            let mut k = h;
            for i in 0..ds.dim {
                for d in 1..=ds.size {
                    if ds.orbit2(i, i + 1, d)[0] == d {
                        k = k.wrapping_mul(6364136223846793005).wrapping_add(1442695040888963407);
                        let f = [1usize, 1, 1, 43, 64, 85, 128, 255, 256, 257, 21845, 65536][(k >> 33) as usize % 12];
                        let v = ds.v[i][d] * f;
                        ds.set_v(i, d, v);
                    }
                }
            }
            ds
        })
        .boxed()
    };
    ctx.run_prop(&SUB_QUERY, || q(scaled(prop_oneof![random_symbol_any(2, 1..=16), random_symbol_any(3, 1..=12), random_symbol_any(1, 1..=10)].boxed())), n / 4);
    // outputs of the crate's own generators, as they come (SimpleDSet with counters)
    ctx.layer("generator-outputs");
    let gens: Vec<Query> = [(1usize, 6usize), (2, t.pick(5, 7)), (3, t.pick(4, 5))]
        .iter()
        .flat_map(|&(dim, n)| rust_dsymbols::generators::dset_generators::DSets::new(dim, n).map(|s| Query { ds: DS::from_dset(&s), indices: vec![], seeds: vec![], holes: vec![] }).collect::<Vec<_>>())
        .collect();
    ctx.run_par(&SUB_QUERY, gens, None);
}

pub fn replay(ctx: &mut Ctx, sub: &str, case: &Value) -> Option<Result<(), String>> {
    Some(match sub {
        "queries" => ctx.run_one(&SUB_QUERY, &Query::decode(case)?),
        _ => return None,
    })
}
