//! C20 — union-find partitions track exactly the unions performed
use crate::ensure;
use crate::runner::*;
use crate::util::*;
use proptest::prelude::*;
use rust_dsymbols::util::partitions::{IntPartition, Partition};
use serde_json::{json, Value};
use std::collections::HashMap;
use std::fmt::Debug;
use std::hash::Hash;

#[derive(Clone, Debug, Hash, PartialEq, Eq)]
pub enum UOp {
    Unite(usize, usize, usize),
    Find(usize, usize),
    Classes(usize, Vec<usize>),
    Clone(usize, usize),
}

#[derive(Clone, Debug, Hash)]
pub struct Hist {
    /// 0 = Partition<u8>, 1 = Partition<String>, 2 = Partition<(i32,i32)>, 3 = IntPartition (sparse indices)
    pub kind: u8,
    /// 0 = observe every instance on a clone after every step (chains of the original stay uncompressed),
    /// 1 = observe directly after every step, 2 = observe directly at the end only
    pub observe: u8,
    pub universe: usize,
    pub ops: Vec<UOp>,
}

const KINDS: [&str; 4] = ["Partition<u8>", "Partition<String>", "Partition<(i32,i32)>", "IntPartition"];

impl Case for Hist {
    fn encode(&self) -> Value {
        json!({
            "type": KINDS[self.kind as usize],
            "observe": self.observe,
            "universe": self.universe,
            "ops": self.ops.iter().map(|o| match o {
                UOp::Unite(i, a, b) => json!(["unite", i, a, b]),
                UOp::Find(i, a) => json!(["find", i, a]),
                UOp::Classes(i, l) => json!(["classes", i, l]),
                UOp::Clone(s, d) => json!(["clone", s, d]),
            }).collect::<Vec<_>>(),
        })
    }
    fn decode(v: &Value) -> Option<Self> {
        let kind = KINDS.iter().position(|k| Some(*k) == v.get("type").and_then(|x| x.as_str()))? as u8;
        let mut ops = vec![];
        for o in v.get("ops")?.as_array()? {
            let a = o.as_array()?;
            let u = |i: usize| a.get(i).and_then(|x| x.as_u64()).map(|x| x as usize);
            ops.push(match a.first()?.as_str()? {
                "unite" => UOp::Unite(u(1)?, u(2)?, u(3)?),
                "find" => UOp::Find(u(1)?, u(2)?),
                "classes" => UOp::Classes(u(1)?, dec_usizes(a.get(2)?)?),
                "clone" => UOp::Clone(u(1)?, u(2)?),
                _ => return None,
            });
        }
        Some(Hist { kind, observe: v.get("observe")?.as_u64()? as u8, universe: v.get("universe")?.as_u64()? as usize, ops })
    }
    fn weight(&self) -> usize {
        self.ops.len()
    }
    fn hash64(&self) -> u64 {
        h64(self)
    }
}

// ---------------------------------------------------------------------------
// the two implementations behind one interface

trait Uf: Clone {
    type E: Clone + Eq + Hash + Debug;
    fn new() -> Self;
    fn find(&self, e: &Self::E) -> Self::E;
    fn unite(&mut self, a: &Self::E, b: &Self::E);
    fn classes(&self, l: &[Self::E]) -> Vec<Vec<Self::E>>;
    fn elem(i: usize) -> Self::E;
    /// element names for large universes (dense for IntPartition, so that 2^20 elements fit)
    fn big(i: usize) -> Self::E {
        Self::elem(i)
    }
}

macro_rules! generic_uf {
    ($name:ident, $t:ty, $f:expr) => {
        #[derive(Clone)]
        struct $name(Partition<$t>);
        impl Uf for $name {
            type E = $t;
            fn new() -> Self {
                $name(Partition::new())
            }
            fn find(&self, e: &$t) -> $t {
                self.0.find(e)
            }
            fn unite(&mut self, a: &$t, b: &$t) {
                self.0.unite(a, b)
            }
            fn classes(&self, l: &[$t]) -> Vec<Vec<$t>> {
                self.0.classes(l)
            }
            fn elem(i: usize) -> $t {
                ($f)(i)
            }
        }
    };
}
generic_uf!(PU8, u8, |i: usize| (i as u8).wrapping_mul(37).wrapping_add(200));
generic_uf!(PStr, String, |i: usize| format!("s{}", "x".repeat(i % 3) + &i.to_string()));
generic_uf!(PPair, (i32, i32), |i: usize| ((i / 3) as i32 - 1, -((i % 3) as i32)));

#[derive(Clone)]
struct PInt(IntPartition);
const SPARSE: [usize; 16] = [3, 0, 17, 1, 64, 2, 1000, 65, 5, 4, 129, 7, 6, 33, 8, 500];
impl Uf for PInt {
    type E = usize;
    fn new() -> Self {
        PInt(IntPartition::new())
    }
    fn find(&self, e: &usize) -> usize {
        self.0.find(*e)
    }
    fn unite(&mut self, a: &usize, b: &usize) {
        self.0.unite(*a, *b)
    }
    fn classes(&self, l: &[usize]) -> Vec<Vec<usize>> {
        self.0.classes(l)
    }
    fn elem(i: usize) -> usize {
        SPARSE[i % 16] + 2000 * (i / 16)
    }
    /// every third index only: the indices in between are never named, so that a representative that
    /// strays to a neighbouring slot is seen as a wrong answer rather than as a walk that never ends
    fn big(i: usize) -> usize {
        3 * i
    }
}

// ---------------------------------------------------------------------------
// model: naive relabelling

#[derive(Clone)]
struct Model {
    label: Vec<usize>,
    /// representative last observed for a class label; dropped by any union call involving the class
    rep: HashMap<usize, usize>,
    effective_unions: usize,
}

impl Model {
    fn new(n: usize) -> Self {
        Model { label: (0..n).collect(), rep: HashMap::new(), effective_unions: 0 }
    }
    fn unite(&mut self, a: usize, b: usize) {
        let (la, lb) = (self.label[a], self.label[b]);
        self.rep.remove(&la);
        self.rep.remove(&lb);
        if la != lb {
            self.effective_unions += 1;
            for l in self.label.iter_mut() {
                if *l == lb {
                    *l = la;
                }
            }
        }
    }
    fn class_size(&self, a: usize) -> usize {
        self.label.iter().filter(|&&l| l == self.label[a]).count()
    }
}

const NINST: usize = 3;

fn observe_find<U: Uf>(inst: &U, m: &mut Model, back: &HashMap<U::E, usize>, e: usize, who: &str) -> Result<(), String> {
    let r = inst.find(&U::elem(e));
    let ri = *back.get(&r).ok_or_else(|| format!("{}: find({:?}) returned {:?}, which was never inserted", who, U::elem(e), r))?;
    ensure!(
        m.label[ri] == m.label[e],
        "{}: find(element #{}) = element #{}, which is not in the same class according to the unions performed",
        who, e, ri
    );
    let l = m.label[e];
    match m.rep.get(&l) {
        Some(&old) => ensure!(
            old == ri,
            "{}: representative of the class of element #{} is now #{} but was observed as #{} and no union involving the class happened since (or two members of one class report different representatives)",
            who, e, ri, old
        ),
        None => {
            m.rep.insert(l, ri);
        }
    }
    Ok(())
}

fn sweep<U: Uf>(inst: &U, m: &mut Model, back: &HashMap<U::E, usize>, on_clone: bool, who: &str) -> Result<(), String> {
    let n = m.label.len();
    if on_clone {
        let c = inst.clone();
        for e in 0..n {
            observe_find(&c, m, back, e, who)?;
        }
    } else {
        for e in 0..n {
            observe_find(inst, m, back, e, who)?;
        }
    }
    Ok(())
}

fn run_hist<U: Uf>(c: &Hist, obs: &mut Obs) -> Result<(), String> {
    let n = c.universe;
    let back: HashMap<U::E, usize> = (0..n).map(|i| (U::elem(i), i)).collect();
    ensure!(back.len() == n, "harness: element map not injective");
    let mut insts: Vec<U> = (0..NINST).map(|_| U::new()).collect();
    let mut models: Vec<Model> = (0..NINST).map(|_| Model::new(n)).collect();
    // bookkeeping for the non-triviality rule
    let mut cloned_from: Vec<Option<usize>> = vec![None; NINST];
    let mut diverged_self = vec![false; NINST];
    let mut diverged_orig = vec![false; NINST];
    let mut nontrivial = false;
    for (step, op) in c.ops.iter().enumerate() {
        match op {
            UOp::Unite(i, a, b) => {
                let before = models[*i].effective_unions;
                insts[*i].unite(&U::elem(*a), &U::elem(*b));
                models[*i].unite(*a, *b);
                if models[*i].effective_unions > before {
                    if cloned_from[*i].is_some() {
                        diverged_self[*i] = true;
                    }
                    for k in 0..NINST {
                        if cloned_from[k] == Some(*i) {
                            diverged_orig[k] = true;
                        }
                    }
                }
            }
            UOp::Find(i, a) => {
                if models[*i].class_size(*a) >= 3 {
                    nontrivial = true;
                    obs.class("find in a class of size >= 3");
                }
                observe_find(&insts[*i], &mut models[*i], &back, *a, &format!("step {} {:?}", step, op))?;
            }
            UOp::Classes(i, list) => {
                let mut l: Vec<usize> = vec![];
                for &e in list {
                    if !l.contains(&e) {
                        l.push(e);
                    }
                }
                // the query keeps its repetitions; a repeated element may be listed once or once per
                // occurrence, but always in one class only: repetitions are removed from each listed
                // class before the comparison, the number and order of classes are compared as they are
                let got = insts[*i].classes(&list.iter().map(|&e| U::elem(e)).collect::<Vec<_>>());
                let mut got_idx: Vec<Vec<usize>> = vec![];
                for cl in &got {
                    let mut v = vec![];
                    for e in cl {
                        let x = *back.get(e).ok_or_else(|| format!("step {}: classes() lists foreign element {:?}", step, e))?;
                        if !v.contains(&x) {
                            v.push(x);
                        }
                    }
                    got_idx.push(v);
                }
                if list.len() != l.len() {
                    obs.class("classes() query with a repeated element");
                }
                let mut expect: Vec<Vec<usize>> = vec![];
                for &e in &l {
                    if let Some(cl) = expect.iter_mut().find(|cl| models[*i].label[cl[0]] == models[*i].label[e]) {
                        cl.push(e);
                    } else {
                        expect.push(vec![e]);
                    }
                }
                ensure!(
                    got_idx == expect,
                    "step {}: classes({:?}) on instance {} = {:?} (repetitions inside a class removed), expected {:?} (classes and members in first-occurrence order, every element in one class only)",
                    step, list, i, got_idx, expect
                );
                if expect.iter().any(|cl| cl.len() >= 2) && expect.len() >= 2 {
                    obs.class("classes() with a merged and a separate class");
                }
            }
            UOp::Clone(s, d) => {
                if s != d {
                    insts[*d] = insts[*s].clone();
                    models[*d] = models[*s].clone();
                    cloned_from[*d] = Some(*s);
                    diverged_self[*d] = false;
                    diverged_orig[*d] = false;
                    for k in 0..NINST {
                        if cloned_from[k] == Some(*d) {
                            cloned_from[k] = None;
                        }
                    }
                }
            }
        }
        if c.observe <= 1 {
            for k in 0..NINST {
                sweep(&insts[k], &mut models[k], &back, c.observe == 0, &format!("after step {} {:?}, instance {}", step, op, k))?;
            }
        }
    }
    for k in 0..NINST {
        sweep(&insts[k], &mut models[k], &back, false, &format!("at the end, instance {}", k))?;
        // a second sweep must reproduce the same representatives (find does not move them)
        sweep(&insts[k], &mut models[k], &back, false, &format!("second sweep at the end, instance {}", k))?;
    }
    for k in 0..NINST {
        if cloned_from[k].is_some() && diverged_self[k] && diverged_orig[k] {
            nontrivial = true;
            obs.class("clone followed by unions on both sides");
        }
    }
    if models.iter().any(|m| m.effective_unions >= 2) {
        nontrivial = true;
    }
    obs.nontrivial(nontrivial);
    Ok(())
}

fn check_hist(c: &Hist, obs: &mut Obs) -> Result<(), String> {
    match c.kind {
        0 => run_hist::<PU8>(c, obs),
        1 => run_hist::<PStr>(c, obs),
        2 => run_hist::<PPair>(c, obs),
        _ => run_hist::<PInt>(c, obs),
    }
}

pub const SUB_HISTORY: Sub<Hist> = Sub {
    name: "history",
    rule: "operation history (unite/find/classes/clone) over 3 instances with a relabelling model per instance; non-trivial = >= 2 effective unions on one instance, or a find in a class of size >= 3, or a clone followed by effective unions on both original and clone",
    check: check_hist,
    panic_discards: &[],
    journal: false,
};


// ---------------------------------------------------------------------------
// structured large histories: shapes that drive the forest to its extremes (balanced tournaments raise
// the rank once per round, chains and stars do not), far beyond what a random history over a few hundred
// elements reaches

#[derive(Clone, Debug, Hash)]
pub struct Big {
    /// 1 = Partition<String>, 2 = Partition<(i32,i32)>, 3 = IntPartition
    pub kind: u8,
    /// 0 = balanced tournament, 1 = chain, 2 = reversed chain, 3 = star, 4 = random pairs
    pub shape: u8,
    pub log2: u32,
    pub salt: u64,
}

impl Case for Big {
    fn encode(&self) -> Value {
        json!({"type": KINDS[self.kind as usize], "shape": self.shape, "log2": self.log2, "salt": self.salt})
    }
    fn decode(v: &Value) -> Option<Self> {
        let kind = KINDS.iter().position(|k| Some(*k) == v.get("type").and_then(|x| x.as_str()))? as u8;
        Some(Big { kind, shape: v.get("shape")?.as_u64()? as u8, log2: v.get("log2")?.as_u64()? as u32, salt: v.get("salt")?.as_u64()? })
    }
    fn weight(&self) -> usize {
        self.log2 as usize
    }
    fn hash64(&self) -> u64 {
        h64(self)
    }
}

/// own model for large universes: class label per element plus member lists, smaller list relabelled
struct Labels {
    label: Vec<u32>,
    members: Vec<Vec<u32>>,
}
impl Labels {
    fn new(n: usize) -> Self {
        Labels { label: (0..n as u32).collect(), members: (0..n as u32).map(|i| vec![i]).collect() }
    }
    fn unite(&mut self, a: usize, b: usize) {
        let (mut la, mut lb) = (self.label[a] as usize, self.label[b] as usize);
        if la == lb {
            return;
        }
        if self.members[la].len() < self.members[lb].len() {
            std::mem::swap(&mut la, &mut lb);
        }
        let moved = std::mem::take(&mut self.members[lb]);
        for &x in &moved {
            self.label[x as usize] = la as u32;
        }
        self.members[la].extend(moved);
    }
}

fn compare_big<U: Uf>(inst: &U, m: &Labels, back: &HashMap<U::E, usize>, stride: usize, when: &str) -> Result<(), String> {
    // representative -> model label must be a bijection on the sampled elements, and a representative
    // lies in the class it represents
    let n = m.label.len();
    let mut rep_of_label: HashMap<u32, usize> = HashMap::new();
    let mut label_of_rep: HashMap<usize, u32> = HashMap::new();
    let mut a = 0;
    while a < n {
        let r = inst.find(&U::big(a));
        let ri = *back.get(&r).ok_or_else(|| format!("{}: find({:?}) = {:?} is not an element that was ever named", when, U::big(a), r))?;
        ensure!(m.label[ri] == m.label[a], "{}: find({:?}) = {:?} does not lie in the class of its argument", when, U::big(a), r);
        if let Some(&prev) = rep_of_label.get(&m.label[a]) {
            ensure!(prev == ri, "{}: {:?} and {:?} were united but have different representatives", when, U::big(a), U::big(m.members[m.label[a] as usize][0] as usize));
        } else {
            rep_of_label.insert(m.label[a], ri);
        }
        if let Some(&prev) = label_of_rep.get(&ri) {
            ensure!(prev == m.label[a], "{}: find({:?}) = {:?} is also the representative of a class that was never united with it", when, U::big(a), r);
        } else {
            label_of_rep.insert(ri, m.label[a]);
        }
        a += stride;
    }
    Ok(())
}

fn run_big<U: Uf>(c: &Big, obs: &mut Obs) -> Result<(), String> {
    let n = 1usize << c.log2;
    let mut s = c.salt | 1;
    let mut rnd = move |k: usize| {
        s ^= s << 13;
        s ^= s >> 7;
        s ^= s << 17;
        (s % k as u64) as usize
    };
    let back: HashMap<U::E, usize> = (0..n).map(|i| (U::big(i), i)).collect();
    ensure!(back.len() == n, "harness: element names collide");
    let mut inst = U::new();
    let mut m = Labels::new(n);
    let mut snapshot: Option<(U, Vec<u32>)> = None;
    let mut unions: Vec<(usize, usize)> = vec![];
    match c.shape {
        0 => {
            // round r unites the blocks [i, i + 2^r) and [i + 2^r, i + 2^(r+1)) through arbitrary members
            for r in 0..c.log2 {
                let h = 1usize << r;
                let mut i = 0;
                while i < n {
                    unions.push((i + rnd(h), i + h + rnd(h)));
                    i += 2 * h;
                }
            }
        }
        1 => unions.extend((1..n).map(|i| (i - 1, i))),
        2 => unions.extend((1..n).rev().map(|i| (i, i - 1))),
        3 => unions.extend((1..n).map(|i| (if c.salt % 2 == 0 { 0 } else { i }, if c.salt % 2 == 0 { i } else { 0 }))),
        _ => unions.extend((0..n + n / 2).map(|_| (rnd(n), rnd(n)))),
    }
    let total = unions.len();
    let checkpoints = [total / 3, total / 2, total - total / 8, total];
    let stride = (n / 4096).max(1);
    for (k, &(a, b)) in unions.iter().enumerate() {
        inst.unite(&U::big(a), &U::big(b));
        m.unite(a, b);
        if k + 1 == total / 2 {
            snapshot = Some((inst.clone(), m.label.clone()));
        }
        if checkpoints.contains(&(k + 1)) {
            compare_big(&inst, &m, &back, stride, &format!("after {} of {} unions", k + 1, total))?;
        }
    }
    compare_big(&inst, &m, &back, 1, "at the end")?;
    // the clone taken half-way must still be what it was
    if let Some((cl, labels)) = snapshot {
        let old = Labels { label: labels.clone(), members: { let mut v = vec![vec![]; n]; for (i, &l) in labels.iter().enumerate() { v[l as usize].push(i as u32); } v } };
        compare_big(&cl, &old, &back, stride.max(3), "clone taken half-way, after the original went on")?;
    }
    obs.nontrivial(true);
    obs.class(["tournament", "chain", "reversed chain", "star", "random pairs"][c.shape as usize]);
    obs.class(&format!("2^{} elements", c.log2));
    Ok(())
}

fn check_big(c: &Big, obs: &mut Obs) -> Result<(), String> {
    match c.kind {
        1 => run_big::<PStr>(c, obs),
        2 => run_big::<PPair>(c, obs),
        _ => run_big::<PInt>(c, obs),
    }
}

pub const SUB_BIG: Sub<Big> = Sub {
    name: "large_structured",
    rule: "structured union sequences on 2^k elements (balanced tournament through arbitrary members of the blocks, chain, reversed chain, star, random pairs) against an own label / member-list model: the map representative <-> class is a bijection, representatives lie in their classes, a clone taken half-way is unaffected by the rest; every case is non-trivial",
    check: check_big,
    panic_discards: &[],
    journal: false,
};

// ---------------------------------------------------------------------------
// generators

/// exhaustive op alphabet over 2 instances and a 4-element universe
fn alphabet() -> Vec<UOp> {
    let mut ops = vec![];
    for i in 0..2 {
        for a in 0..4 {
            for b in 0..4 {
                if a != b {
                    ops.push(UOp::Unite(i, a, b));
                }
            }
        }
        for a in 0..4 {
            ops.push(UOp::Find(i, a));
        }
        ops.push(UOp::Classes(i, vec![3, 1, 0, 3, 2, 1]));
    }
    ops.push(UOp::Clone(0, 1));
    ops.push(UOp::Clone(1, 0));
    ops
}

fn op_strategy(n: usize) -> impl Strategy<Value = UOp> {
    let inst = 0..NINST;
    let el = 0..n;
    prop_oneof![
        5 => (inst.clone(), el.clone(), el.clone()).prop_map(|(i, a, b)| UOp::Unite(i, a, b)),
        3 => (inst.clone(), el.clone()).prop_map(|(i, a)| UOp::Find(i, a)),
        1 => (inst.clone(), prop::collection::vec(el.clone(), 0..(n + 2))).prop_map(|(i, l)| UOp::Classes(i, l)),
        1 => (inst.clone(), inst.clone()).prop_map(|(s, d)| UOp::Clone(s, d)),
    ]
}

fn hist_strategy(maxlen: usize) -> impl Strategy<Value = Hist> {
    (0u8..4, 0u8..3, prop_oneof![Just(4usize), Just(6), Just(12), Just(40), Just(100), Just(300)]).prop_flat_map(move |(kind, observe, n)| {
        // Partition<u8> cannot name more than 256 elements
        let n = if kind == 0 { n.min(200) } else { n };
        prop::collection::vec(op_strategy(n), 0..maxlen).prop_map(move |ops| Hist { kind, observe, universe: n, ops })
    })
}

pub fn run(ctx: &mut Ctx) {
    let t = ctx.tier;
    ctx.rule = "all operation histories over a small alphabet (exhaustive) plus proptest-generated long histories, for Partition<u8>, Partition<String>, Partition<(i32,i32)> and IntPartition (sparse indices); oracle = naive relabelling model per instance, observed after every step (on a clone, so chains stay uncompressed, or directly) or only at the end; distinct = distinct 64-bit hashes of (type, observation mode, ops)".into();
    ctx.assume("a unite call whose arguments already share a class is conservatively treated as 'a union involving that class' (the representative may change)");
    ctx.assume("classes() may be queried with repeated elements; whether a repeated element is listed once or once per occurrence inside its class is left open, but it must appear in one class only");
    crate::props::run_regressions(ctx, "C20");

    ctx.layer("exhaustive");
    let alpha = alphabet();
    let k = alpha.len() as u64;
    let maxlen = t.pick(4u32, 5u32);
    for len in 0..=maxlen {
        let n = k.pow(len);
        // every history is run for IntPartition and Partition<String>, observing on clones and at the end only
        ctx.run_par_indexed(
            &SUB_HISTORY,
            n * 4,
            |idx| {
                let variant = idx % 4;
                let mut h = idx / 4;
                let mut ops = vec![];
                for _ in 0..len {
                    ops.push(alpha[(h % k) as usize].clone());
                    h /= k;
                }
                Some(Hist { kind: if variant < 2 { 3 } else { 1 }, observe: if variant % 2 == 0 { 0 } else { 2 }, universe: 4, ops })
            },
            Some(&format!("all histories of length <= {} over {} operations (2 instances, 4 elements: all ordered unite pairs, all finds, classes, clone both ways) x {{IntPartition, Partition<String>}} x {{observe on clone each step, observe at end}}", maxlen, k)),
        );
    }
    ctx.layer("large");
    let mut big = vec![];
    for shape in 0..5u8 {
        for log2 in [3u32, 7, 10, 12, 15, 16, 17].iter().cloned().chain(if t.pick(0, 1) == 1 { vec![18, 19, 20] } else { vec![] }) {
            for salt in 0..t.pick(2u64, 4u64) {
                big.push(Big { kind: 3, shape, log2, salt: salt * 7919 + ctx.seed % 1000 });
                if log2 <= 17 {
                    big.push(Big { kind: 2, shape, log2, salt: salt * 104729 + ctx.seed % 1000 });
                }
                if log2 <= 12 {
                    big.push(Big { kind: 1, shape, log2, salt });
                }
            }
        }
    }
    ctx.run_par(&SUB_BIG, big, None);
    ctx.layer("random");
    let hl = t.pick(60, 200);
    ctx.run_prop(&SUB_HISTORY, || hist_strategy(hl), t.pick(100_000, 2_000_000));
}

pub fn replay(ctx: &mut Ctx, sub: &str, case: &Value) -> Option<Result<(), String>> {
    Some(match sub {
        "history" => ctx.run_one(&SUB_HISTORY, &Hist::decode(case)?),
        "large_structured" => ctx.run_one(&SUB_BIG, &Big::decode(case)?),
        _ => return None,
    })
}
