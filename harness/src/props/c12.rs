//! C12 — low-index enumeration lists each subgroup conjugacy class exactly once
use crate::ensure;
use crate::gen::groups::*;
use crate::oracle::groups::*;
use crate::props::c11::{fw, read_table};
use crate::runner::*;
use crate::util::*;
use proptest::prelude::*;
use rust_dsymbols::fpgroups::cosets::coset_tables;
use rust_dsymbols::fpgroups::free_words::FreeWord;
use serde_json::{json, Value};
use std::collections::{BTreeMap, BTreeSet};

#[derive(Clone, Debug, Hash)]
pub struct LowCase {
    pub name: String,
    pub nr_gens: usize,
    pub rels: Vec<Word>,
    pub k: usize,
}

impl Case for LowCase {
    fn encode(&self) -> Value {
        json!({"group": self.name, "nr_gens": self.nr_gens, "relators": self.rels, "max_index": self.k})
    }
    fn decode(v: &Value) -> Option<Self> {
        Some(LowCase { name: v.get("group")?.as_str()?.to_string(), nr_gens: v.get("nr_gens")?.as_u64()? as usize, rels: dec_words(v.get("relators")?)?, k: v.get("max_index")?.as_u64()? as usize })
    }
    fn weight(&self) -> usize {
        self.k * 10 + self.nr_gens
    }
    fn hash64(&self) -> u64 {
        h64(self)
    }
}

pub const BUDGET_QUICK: u64 = 3_000_000;
pub const BUDGET_THOROUGH: u64 = 300_000_000;

fn budget() -> u64 {
    if std::env::var("DSV_TIER").map_or(false, |t| t == "thorough") {
        BUDGET_THOROUGH
    } else {
        BUDGET_QUICK
    }
}

/// literature values: number of conjugacy classes of subgroups of index n = 1, 2, 3, ...
fn literature(name: &str) -> Option<&'static [usize]> {
    match name {
        "free F2" => Some(&[1, 3, 7, 26, 97, 624]),
        "free F3" => Some(&[1, 7, 41, 604]),
        "Z^2" => Some(&[1, 3, 4, 7, 6, 12, 8, 15]),
        "Z^3" => Some(&[1, 7, 13, 35, 31, 91]),
        "PSL2(Z) = Z2 * Z3" => Some(&[1, 1, 2, 2, 1, 8, 6, 7, 14]),
        "free F1 = Z" => Some(&[1, 1, 1, 1, 1, 1, 1, 1, 1, 1]),
        _ => None,
    }
}

fn check_low(c: &LowCase, obs: &mut Obs) -> Result<(), String> {
    ensure!(c.rels.iter().all(|w| !free_reduce(w).is_empty() && w.iter().all(|&l| l != 0 && l.unsigned_abs() as usize <= c.nr_gens)), "harness: bad relators");
    let pres = Pres { nr_gens: c.nr_gens, rels: c.rels.clone() };
    // oracle: all transitive actions on exactly j points, j <= k
    let mut expect: BTreeMap<usize, BTreeSet<Vec<usize>>> = BTreeMap::new();
    for j in 1..=c.k {
        match transitive_actions(&pres, j, budget()) {
            Some(s) => {
                if let Some(lit) = literature(&c.name) {
                    if j <= lit.len() {
                        ensure!(s.len() == lit[j - 1], "harness: own enumeration finds {} classes of index {} in {}, literature says {}", s.len(), j, c.name, lit[j - 1]);
                    }
                }
                expect.insert(j, s);
            }
            None => {
                obs.discard("brute-force enumeration over budget");
                return Ok(());
            }
        }
    }
    let rels: Vec<FreeWord> = c.rels.iter().map(|w| fw(w)).collect();
    let mut got: BTreeMap<usize, BTreeSet<Vec<usize>>> = BTreeMap::new();
    let mut nonnormal = false;
    let mut count = 0;
    for (n, ct) in coset_tables(c.nr_gens, &rels, c.k).enumerate() {
        let t = read_table(&ct, c.nr_gens).map_err(|e| format!("table #{}: {}", n + 1, e))?;
        ensure!(t.len() >= 1 && t.len() <= c.k, "table #{} has {} rows, bound is {}", n + 1, t.len(), c.k);
        ensure!(t.is_transitive(), "table #{} ({} rows) is not a transitive action", n + 1, t.len());
        if let Some((k, r)) = t.relators_close(&c.rels) {
            return Err(format!("table #{}: relator {:?} traced from row {} ends in row {}", n + 1, c.rels[k], r, t.trace(r, &c.rels[k])));
        }
        let code = t.canonical_code();
        ensure!(got.entry(t.len()).or_default().insert(code), "table #{} ({} rows) is equivalent to an earlier table (same subgroup class listed twice)", n + 1, t.len());
        nonnormal |= (1..t.len()).any(|b| t.based_code(b) != t.based_code(0));
        count += 1;
    }
    // iterator protocol: nth / skip / step_by / take / last / count agree with repeated next()
    if count <= 300 {
        let (g, k) = (c.nr_gens, c.k);
        crate::util::iter_protocol(|| coset_tables(g, &rels, k), |ct| read_table(ct, g).map(|t| t.based_code(0)).map_err(|_| ()), 6, "coset_tables")?;
    }
    for j in 1..=c.k {
        let e = expect.get(&j).cloned().unwrap_or_default();
        let g = got.get(&j).cloned().unwrap_or_default();
        for code in &g {
            ensure!(e.contains(code), "a table with {} rows is not among the {} transitive actions of {} on {} points found by brute force", j, e.len(), c.name, j);
        }
        if g.len() != e.len() {
            let missing: Vec<&Vec<usize>> = e.iter().filter(|code| !g.contains(*code)).take(2).collect();
            return Err(format!(
                "{} has {} conjugacy classes of subgroups of index {}, the enumeration lists {}; a missing action (BFS code: rows, then per row and generator the images under g and g^-1): {:?}",
                c.name, e.len(), j, g.len(), missing
            ));
        }
    }
    obs.nontrivial(nonnormal);
    obs.classify(count > 10, "> 10 classes");
    obs.class(&format!("{} generators", c.nr_gens));
    Ok(())
}

// ---------------------------------------------------------------------------
// deep index bounds: counts from closed formulas / literature instead of brute force

fn sigma(n: usize) -> usize {
    (1..=n).filter(|d| n % d == 0).sum()
}

/// number of conjugacy classes of subgroups of index j (j = 1..=k) for the families whose
/// subgroup lattice is known in closed form
pub fn formula_counts(family: &str, param: usize, k: usize) -> Option<Vec<usize>> {
    Some(match family {
        // Z: one subgroup per index
        "Z" => vec![1; k],
        // the trivial group, however it is presented: the group itself and nothing else
        "trivial" => (1..=k).map(|j| if j == 1 { 1 } else { 0 }).collect(),
        // Z^2: sublattices of index j: sigma(j)
        "Z^2" => (1..=k).map(sigma).collect(),
        // Z^3: sum over d | j of d * sigma(d)
        "Z^3" => (1..=k).map(|j| (1..=j).filter(|d| j % d == 0).map(|d| d * sigma(d)).sum()).collect(),
        // cyclic group of order n: one subgroup for every divisor
        "cyclic" => (1..=k).map(|j| if param % j == 0 { 1 } else { 0 }).collect(),
        // dihedral group of order 2n: cyclic subgroups of order d | n (index 2n/d, one class each; for
        // n even the order-2 subgroup of the rotations is one of them) and dihedral subgroups of
        // order 2d (index n/d): one class if n/d is odd, two if it is even
        "dihedral" => {
            let n = param;
            (1..=k)
                .map(|j| {
                    let mut c = 0;
                    if (2 * n) % j == 0 && n % (2 * n / j) == 0 {
                        c += 1; // rotations of order 2n/j
                    }
                    if n % j == 0 {
                        c += if j % 2 == 0 { 2 } else { 1 }; // dihedral of order 2n/j, index j = n/d
                    }
                    c
                })
                .collect()
        }
        // infinite dihedral group Z2 * Z2: index j has the rotation subgroup <(ab)^(j/2)> (j even) and the
        // dihedral subgroups <(ab)^j, reflection>: one class for odd j, two for even j
        "D_inf" => (1..=k).map(|j| if j % 2 == 1 { 1 } else { 3 }).collect(),
        // literature sequences (OEIS A005133 for PSL2(Z) = Z2 * Z3; classes of subgroups of free groups):
        // values beyond the reach of the brute-force oracle, written down from the literature
        "PSL2(Z)" => [1usize, 1, 2, 2, 1, 8, 6, 7, 14, 27, 26, 80, 133, 170, 348, 765, 1002].iter().cloned().take(k).collect::<Vec<_>>(),
        "F2" => [1usize, 3, 7, 26, 97, 624, 4163, 34470].iter().cloned().take(k).collect::<Vec<_>>(),
        "F3" => [1usize, 7, 41, 604, 13753].iter().cloned().take(k).collect::<Vec<_>>(),
        _ => return None,
    })
}

#[derive(Clone, Debug, Hash)]
pub struct DeepCase {
    pub family: String,
    pub param: usize,
    pub nr_gens: usize,
    pub rels: Vec<Word>,
    pub k: usize,
}

impl Case for DeepCase {
    fn encode(&self) -> Value {
        json!({"family": self.family, "parameter": self.param, "nr_gens": self.nr_gens, "relators": self.rels, "max_index": self.k})
    }
    fn decode(v: &Value) -> Option<Self> {
        Some(DeepCase { family: v.get("family")?.as_str()?.to_string(), param: v.get("parameter")?.as_u64()? as usize, nr_gens: v.get("nr_gens")?.as_u64()? as usize, rels: dec_words(v.get("relators")?)?, k: v.get("max_index")?.as_u64()? as usize })
    }
    fn weight(&self) -> usize {
        self.k * 10 + self.param
    }
    fn hash64(&self) -> u64 {
        h64(self)
    }
}

fn check_deep(c: &DeepCase, obs: &mut Obs) -> Result<(), String> {
    // families without a formula: validity and irredundancy only
    let expect = if c.family.starts_with("irredundancy only") { None } else { Some(formula_counts(&c.family, c.param, c.k).ok_or("harness: unknown family")?) };
    let rels: Vec<FreeWord> = c.rels.iter().map(|w| fw(w)).collect();
    let mut got: BTreeMap<usize, BTreeSet<Vec<usize>>> = BTreeMap::new();
    for (n, ct) in coset_tables(c.nr_gens, &rels, c.k).enumerate() {
        let t = read_table(&ct, c.nr_gens).map_err(|e| format!("table #{}: {}", n + 1, e))?;
        ensure!(t.len() >= 1 && t.len() <= c.k, "table #{} has {} rows, bound is {}", n + 1, t.len(), c.k);
        ensure!(t.is_transitive(), "table #{} ({} rows) is not a transitive action", n + 1, t.len());
        if let Some((k, r)) = t.relators_close(&c.rels) {
            return Err(format!("table #{}: relator {:?} traced from row {} ends in row {}", n + 1, c.rels[k], r, t.trace(r, &c.rels[k])));
        }
        ensure!(got.entry(t.len()).or_default().insert(t.canonical_code()), "table #{} ({} rows) is equivalent to an earlier table (same subgroup class listed twice)", n + 1, t.len());
    }
    for j in 1..=c.k {
        let g = got.get(&j).map_or(0, |s| s.len());
        let expect = match &expect { Some(e) => e, None => break };
        ensure!(g == expect[j - 1], "{} {} (relators {:?}) has {} conjugacy classes of subgroups of index {} (closed formula), the enumeration with bound {} lists {}", c.family, c.param, c.rels, expect[j - 1], j, c.k, g);
    }
    obs.nontrivial(c.k >= 10);
    obs.classify(got.keys().any(|&j| j > 64), "a table with more than 64 rows");
    obs.class(&c.family);
    Ok(())
}

pub const SUB_DEEP: Sub<DeepCase> = Sub {
    name: "deep_index",
    rule: "(family with a closed formula or a literature sequence for its subgroup classes: Z, Z^2 (sigma), Z^3 (sum d sigma(d)), cyclic, dihedral; PSL2(Z) to index 17, F2 to 8, F3 to 5; presentation in several generator orders; index bound k up to 80): every table complete, <= k rows, transitive, relators close, pairwise inequivalent, and the number of tables per index equals the formula; non-trivial = k >= 10",
    check: check_deep,
    panic_discards: &[],
    journal: false,
};

pub const SUB_LOW: Sub<LowCase> = Sub {
    name: "low_index",
    rule: "(presentation, index bound k): every table complete, <= k rows, transitive, all relators fix all rows; canonical forms (minimum BFS relabelling over all base points) pairwise different and, per index, equal as a set to ALL transitive homomorphisms into S_j found by brute force (first generator up to cycle type, relator pruning); non-trivial = some listed class is non-normal",
    check: check_low,
    panic_discards: &[],
    journal: false,
};

/// largest k such that the brute-force search space stays within the budget
pub fn max_k(nr_gens: usize, budget: u64, cap: usize) -> usize {
    let mut k = 1;
    while k < cap {
        let kk = k + 1;
        let fact: u64 = (1..=kk as u64).product();
        let parts = [1u64, 1, 2, 3, 5, 7, 11, 15, 22, 30, 42][kk.min(10)];
        let space = if nr_gens == 0 { 1 } else { parts.saturating_mul(fact.saturating_pow(nr_gens as u32 - 1)) };
        if space > budget {
            break;
        }
        k = kk;
    }
    k
}

pub fn run(ctx: &mut Ctx) {
    let t = ctx.tier;
    if t == Tier::Thorough {
        std::env::set_var("DSV_TIER", "thorough");
    }
    ctx.rule = "presentation corpus (free, free abelian, surface, triangle, Coxeter, polyhedral, dihedral, abelian, dicyclic groups with <= 4 generators) crossed with every index bound k up to the largest for which all homomorphisms into S_k can be enumerated within the budget; own enumeration is itself cross-checked against literature sequences (F2, F3, Z, Z^2, Z^3, PSL2(Z))".into();
    ctx.assume("relators are non-empty reduced words (caller precondition)");
    crate::props::run_regressions(ctx, "C12");
    ctx.layer("exhaustive");
    let b = t.pick(BUDGET_QUICK, BUDGET_THOROUGH);
    let mut cases = vec![];
    for g in infinite_groups().into_iter().chain(finite_groups(false)) {
        if g.pres.nr_gens > 4 || g.pres.rels.iter().any(|w| free_reduce(w).is_empty()) {
            continue;
        }
        let kmax = max_k(g.pres.nr_gens, b, t.pick(7, 9));
        for k in 1..=kmax {
            cases.push(LowCase { name: g.name.clone(), nr_gens: g.pres.nr_gens, rels: g.pres.rels.clone(), k });
        }
    }
    let n = cases.len();
    // expensive cases first for better load balance
    cases.sort_by_key(|c| std::cmp::Reverse(c.k * c.nr_gens));
    ctx.run_par(&SUB_LOW, cases, Some(&format!("{} (group, k) pairs: every corpus group with <= 4 generators x every k with p(k) * (k!)^(gens-1) <= {}", n, b)));

    // all triangle-like presentations <a,b | a^p, b^q, (ab)^r> in every generator order, and
    // proptest-generated presentations (random reduced relators and proper powers of short words)
    ctx.layer("families");
    let mut fam = vec![];
    let lim = t.pick(6usize, 7usize);
    let k2 = max_k(2, b, t.pick(7, 8));
    for p in 2..=lim {
        for q in 2..=lim {
            for r in 2..=lim {
                let pw = |w: &[i64], e: usize| -> Word { let mut v = vec![]; for _ in 0..e { v.extend_from_slice(w); } v };
                fam.push(LowCase { name: format!("<a,b | a^{}, b^{}, (ab)^{}>", p, q, r), nr_gens: 2, rels: vec![pw(&[1], p), pw(&[2], q), pw(&[1, 2], r)], k: k2 });
            }
        }
    }
    let nf = fam.len();
    ctx.run_par(&SUB_LOW, fam, Some(&format!("all {} presentations <a,b | a^p, b^q, (ab)^r> with 2 <= p, q, r <= {} (both generator orders), index bound {}", nf, lim, k2)));

    // index bounds far beyond the brute-force oracle, for families whose classes are counted by a formula
    ctx.layer("deep");
    let mut deep = vec![];
    let pw = |w: &[i64], e: usize| -> Word { let mut v = vec![]; for _ in 0..e { v.extend_from_slice(w); } v };
    for k in [12usize, 20, t.pick(30, 48)] {
        deep.push(DeepCase { family: "Z".into(), param: 0, nr_gens: 1, rels: vec![], k });
        deep.push(DeepCase { family: "Z^2".into(), param: 0, nr_gens: 2, rels: vec![vec![1, 2, -1, -2]], k });
        deep.push(DeepCase { family: "Z^2".into(), param: 0, nr_gens: 2, rels: vec![vec![2, -1, -2, 1]], k });
    }
    for k in [8usize, t.pick(12, 16)] {
        deep.push(DeepCase { family: "Z^3".into(), param: 0, nr_gens: 3, rels: vec![vec![1, 2, -1, -2], vec![1, 3, -1, -3], vec![2, 3, -2, -3]], k });
        deep.push(DeepCase { family: "Z^3".into(), param: 0, nr_gens: 3, rels: vec![vec![3, 2, -3, -2], vec![3, 1, -3, -1], vec![2, 1, -2, -1]], k });
    }
    for n in 2..=t.pick(40usize, 80usize) {
        deep.push(DeepCase { family: "cyclic".into(), param: n, nr_gens: 1, rels: vec![pw(&[1], n)], k: n });
        deep.push(DeepCase { family: "cyclic".into(), param: n, nr_gens: 2, rels: vec![pw(&[1], n), vec![2, -1, -1]], k: n });
    }
    for n in 3..=t.pick(20usize, 36usize) {
        deep.push(DeepCase { family: "dihedral".into(), param: n, nr_gens: 2, rels: vec![pw(&[1], n), vec![2, 2], vec![1, 2, 1, 2]], k: 2 * n });
        deep.push(DeepCase { family: "dihedral".into(), param: n, nr_gens: 2, rels: vec![vec![1, 1], vec![2, 2], pw(&[1, 2], n)], k: 2 * n });
        deep.push(DeepCase { family: "dihedral".into(), param: n, nr_gens: 2, rels: vec![vec![1, 1], pw(&[2], n), vec![2, 1, 2, 1]], k: 2 * n });
    }
    // non-abelian groups with few classes per index: bounds beyond 64 / 128 rows with non-normal classes
    for k in [40usize, t.pick(100, 160), t.pick(132, 260)] {
        deep.push(DeepCase { family: "D_inf".into(), param: 0, nr_gens: 2, rels: vec![vec![1, 1], vec![2, 2]], k });
        deep.push(DeepCase { family: "D_inf".into(), param: 0, nr_gens: 2, rels: vec![vec![2, 2], vec![1, 2, 1, 2]], k });
        deep.push(DeepCase { family: "D_inf".into(), param: 0, nr_gens: 2, rels: vec![vec![2, 1, 2, 1], vec![1, 1]], k });
    }
    for k in [t.pick(70usize, 90usize)] {
        deep.push(DeepCase { family: "irredundancy only: Klein bottle group".into(), param: 0, nr_gens: 2, rels: vec![vec![1, 2, -1, 2]], k });
        deep.push(DeepCase { family: "irredundancy only: Z2 x D_inf".into(), param: 0, nr_gens: 3, rels: vec![vec![1, 1], vec![2, 2], vec![3, 3], vec![1, 3, 1, 3], vec![2, 3, 2, 3]], k });
        deep.push(DeepCase { family: "irredundancy only: Z x Z3 semidirect (a b a^-1 = b^-1, b^3)".into(), param: 0, nr_gens: 2, rels: vec![vec![1, 2, -1, 2], vec![2, 2, 2]], k });
    }
    // degenerate presentations: no generators at all, every generator killed by a one-letter relator,
    // free generators next to killed ones, repeated relators
    for k in [1usize, 2, 5] {
        deep.push(DeepCase { family: "trivial".into(), param: 0, nr_gens: 0, rels: vec![], k });
        deep.push(DeepCase { family: "trivial".into(), param: 1, nr_gens: 1, rels: vec![vec![1]], k });
        deep.push(DeepCase { family: "trivial".into(), param: 2, nr_gens: 2, rels: vec![vec![-2], vec![1]], k });
        deep.push(DeepCase { family: "trivial".into(), param: 3, nr_gens: 3, rels: vec![vec![3], vec![1], vec![2], vec![1]], k });
        deep.push(DeepCase { family: "trivial".into(), param: 4, nr_gens: 2, rels: vec![vec![1, 1], vec![1, 1, 1], vec![2, 1]], k });
        deep.push(DeepCase { family: "Z".into(), param: 1, nr_gens: 2, rels: vec![vec![1]], k: k + 6 });
        deep.push(DeepCase { family: "Z".into(), param: 2, nr_gens: 3, rels: vec![vec![3], vec![1], vec![3]], k: k + 6 });
        deep.push(DeepCase { family: "cyclic".into(), param: 6, nr_gens: 2, rels: vec![vec![2], pw(&[1], 6), pw(&[1], 6)], k: k + 6 });
    }
    deep.push(DeepCase { family: "PSL2(Z)".into(), param: 0, nr_gens: 2, rels: vec![vec![1, 1], vec![2, 2, 2]], k: t.pick(15, 17) });
    deep.push(DeepCase { family: "PSL2(Z)".into(), param: 0, nr_gens: 2, rels: vec![vec![1, 1, 1], vec![2, 2]], k: t.pick(15, 17) });
    deep.push(DeepCase { family: "F2".into(), param: 0, nr_gens: 2, rels: vec![], k: t.pick(7, 8) });
    deep.push(DeepCase { family: "F3".into(), param: 0, nr_gens: 3, rels: vec![], k: 5 });
    let nd = deep.len();
    ctx.run_par(&SUB_DEEP, deep, Some(&format!("{} (presentation, index bound) pairs of Z, Z^2, Z^3, cyclic, dihedral groups, PSL2(Z), F2, F3 in several generator orders, bounds up to {}; D_inf, Klein bottle group, Z2 x D_inf with bounds beyond 64 and 128 rows", nd, t.pick(132, 260))));

    ctx.layer("random");
    let (k2r, k3r) = (max_k(2, b, 7), max_k(3, b, 5));
    ctx.run_prop(
        &SUB_LOW,
        move || {
            let letter = |n: i64| (1..=n, any::<bool>()).prop_map(|(l, s)| if s { -l } else { l });
            (2usize..=3).prop_flat_map(move |n| {
                let rel = prop_oneof![
                    2 => prop::collection::vec(letter(n as i64), 1..=6),
                    3 => (prop::collection::vec(letter(n as i64), 1..=3), 2usize..=6).prop_map(|(w, e)| { let mut v = vec![]; for _ in 0..e { v.extend(w.iter()); } v }),
                    2 => (prop::collection::vec(letter(n as i64), 2..=4), 2usize..=3, 1usize..=3).prop_map(|(w, e, cut)| { let mut v = vec![]; for _ in 0..e { v.extend(w.iter()); } v.extend(w[..cut.min(w.len() - 1)].iter()); v }),
                ];
                prop::collection::vec(rel, 1..=4).prop_map(move |rels| {
                    let rels: Vec<Word> = rels.into_iter().map(|w| free_reduce(&w)).filter(|w| !w.is_empty()).collect();
                    LowCase { name: format!("random presentation on {} generators", n), nr_gens: n, rels, k: if n == 2 { k2r } else { k3r } }
                })
            })
        },
        t.pick(600, 40_000),
    );
}

pub fn replay(ctx: &mut Ctx, sub: &str, case: &Value) -> Option<Result<(), String>> {
    Some(match sub {
        "low_index" => ctx.run_one(&SUB_LOW, &LowCase::decode(case)?),
        "deep_index" => ctx.run_one(&SUB_DEEP, &DeepCase::decode(case)?),
        _ => return None,
    })
}
