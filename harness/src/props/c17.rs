//! C17 — 3D euclidicity verdicts are total, invariant and never contradictory
use crate::ensure;
use crate::gen::covers::check_projection;
use crate::gen::dsym3::*;
use crate::model::*;
use crate::oracle::fg::own_fundamental_group;
use crate::oracle::groups::*;
use crate::props::c09::corpus_lit;
use crate::props::c11::fw;
use crate::props::c15::{products, ptc, TorCase};
use crate::runner::*;
use proptest::prelude::*;
use rust_dsymbols::covers::covers;
use rust_dsymbols::euclidicity::{is_euclidean, Euclidean};
use rust_dsymbols::fpgroups::cosets::coset_tables;
use rust_dsymbols::fpgroups::free_words::FreeWord;
use serde_json::Value;
use std::sync::Arc;

#[derive(Clone, Debug, PartialEq, Eq)]
pub enum Verdict {
    Yes,
    No(String),
    Maybe(String),
}

impl Verdict {
    fn class(&self) -> &'static str {
        match self {
            Verdict::Yes => "yes",
            Verdict::No(_) => "no",
            Verdict::Maybe(_) => "undecided",
        }
    }
}

pub fn verdict(x: &DS, simple: bool) -> Verdict {
    let r = if simple { is_euclidean(&x.to_simple()) } else { is_euclidean(&x.to_partial()) };
    match r {
        Euclidean::Yes => Verdict::Yes,
        Euclidean::No(m) => Verdict::No(m),
        Euclidean::Maybe(m, _) => Verdict::Maybe(m),
    }
}

/// numbers of conjugacy classes of subgroups of index 1..=k, on a Tietze-simplified presentation:
/// brute force for <= 3 generators, the crate's low-index enumeration (C12) for <= 7, else None
pub fn class_counts(p: &Pres, k: usize) -> Option<Vec<usize>> {
    let s = simplify_presentation(p);
    if s.nr_gens <= 3 {
        if let Some(c) = subgroup_class_counts(&s, k, 300_000) {
            return Some(c);
        }
    }
    if s.nr_gens <= 7 {
        let rels: Vec<FreeWord> = s.rels.iter().map(|w| fw(w)).collect();
        return guarded(|| {
            let mut by = vec![0usize; k + 1];
            for t in coset_tables(s.nr_gens, &rels, k).take(5000) {
                by[t.len()] += 1;
            }
            by[1..].to_vec()
        })
        .ok();
    }
    None
}

fn check_verdict(c: &TorCase, obs: &mut Obs) -> Result<(), String> {
    let x = &c.ds;
    ensure!(x.dim == 3 && x.is_complete() && x.is_connected() && x.commutes(), "harness: case is not a connected complete 3D symbol");
    ensure!((0..3).all(|i| (1..=x.size).all(|d| CRYSTALLOGRAPHIC.contains(&x.v[i][d]))), "harness: crystallographic restriction violated by the generator");
    let v = verdict(x, false);
    // a second evaluation in the same process (simplification iterates over a HashSet)
    let v2 = verdict(x, true);
    ensure!(v2.class() == v.class(), "two evaluations of is_euclidean({}) give {:?} and {:?}", x.short(), v, v2);
    let mut variant = x.renumbered(&perm_from_swaps(x.size, &c.swaps));
    if c.dual {
        variant = variant.dual();
    }
    let vv = verdict(&variant, c.swaps.len() % 2 == 1);
    ensure!(vv.class() == v.class(), "verdict depends on the numbering / dualisation: {:?} for {}, {:?} for {}", v, x.short(), vv, variant.short());
    if c.known_euclidean() {
        if c.kind == "weak" {
            ensure!(!matches!(v, Verdict::No(_)), "{} is euclidean ({}), but is_euclidean says {:?}", x.short(), c.known, v);
            obs.class("known-euclidean manifold (verdict must not be no)");
        } else {
            ensure!(v == Verdict::Yes, "{} is euclidean ({}), but is_euclidean says {:?}", x.short(), c.known, v);
            obs.class("known-euclidean corpus");
        }
    }
    if c.known_not_euclidean() {
        ensure!(v != Verdict::Yes, "{} is not euclidean ({}), but is_euclidean says yes", x.short(), c.known);
        obs.class("known non-euclidean manifold");
    }
    // certificate for yes
    if v == Verdict::Yes {
        let cov = ptc(x, false)?.ok_or_else(|| format!("verdict yes for {} but no pseudo-toroidal cover can be re-derived", x.short()))?.1;
        // ptc() has checked: covering, oriented, branch-free, H1 = Z^3. Subgroup counts of Z^3: 1, 7, 13
        let fg = own_fundamental_group(&cov);
        match class_counts(&fg.pres, 3) {
            Some(counts) => ensure!(counts == vec![1, 7, 13], "verdict yes for {}, but the group of its pseudo-toroidal cover has {:?} conjugacy classes of subgroups of index 1, 2, 3 (Z^3 has 1, 7, 13)", x.short(), counts),
            None => obs.class("certificate: subgroup counts skipped (presentation too large after simplification)"),
        }
        obs.class("yes with certificate");
    }
    // covers never contradict
    let sheets = if x.size <= 12 { 2 } else { 0 };
    if sheets > 0 {
        if let Ok(list) = guarded(|| covers(&x.to_partial(), sheets)) {
            for (n, y) in list.iter().enumerate().take(12) {
                let y = DS::from_dsym(y);
                if y.size == x.size || check_projection(x, &y).is_err() || !y.is_connected() {
                    continue;
                }
                let vy = verdict(&y, n % 2 == 0);
                let contradiction = matches!((&v, &vy), (Verdict::Yes, Verdict::No(_)) | (Verdict::No(_), Verdict::Yes));
                ensure!(!contradiction, "{} gets {:?}, its {}-sheeted cover {} gets {:?}", x.short(), v, y.size / x.size, y.short(), vy);
                obs.class("cover verdict compared");
            }
        }
    }
    let filtered = matches!(&v, Verdict::No(m) if m == "orbifold invariants do not match");
    obs.nontrivial(!filtered);
    obs.class(&format!("verdict {}", v.class()));
    if let Verdict::No(m) | Verdict::Maybe(m) = &v {
        obs.class(&format!("reason: {}", m));
    }
    Ok(())
}

pub const SUB_VERDICT: Sub<TorCase> = Sub {
    name: "verdict",
    rule: "(3D symbol with spherical tiles / vertex figures and branching in {1,2,3,4,6}, renumbering, dual?, known-euclidean tag): is_euclidean returns (no panic); verdict class equal for two evaluations, the renumbered / dual variant; no (yes, no) pair between the symbol and its 2-sheeted covers; yes => a pseudo-toroidal cover can be re-derived that is a branch-free oriented covering with H1 = Z^3 and subgroup-class counts 1, 7, 13; every known-euclidean symbol gets yes; non-trivial = the symbol passes the orbifold-invariant filter",
    check: check_verdict,
    panic_discards: &["Reached coset table limit"],
    journal: false,
};

pub fn corpus_cases(max2d: usize) -> Vec<TorCase> {
    let mut v = vec![];
    for (k, s) in corpus_lit().into_iter().enumerate() {
        v.push(TorCase { swaps: vec![(0, (k as u32 + 1).wrapping_mul(0x3000_0000))], dual: k % 2 == 1, ds: s, known: "literature corpus".into(), kind: String::new() });
    }
    for (k, (s, why)) in products(max2d).into_iter().enumerate() {
        v.push(TorCase { swaps: vec![((k as u32).wrapping_mul(0x2345_6789), (k as u32 + 1).wrapping_mul(0x3000_0001))], dual: k % 2 == 1, ds: s, known: why, kind: String::new() });
    }
    v
}

/// deterministic sample of quotients of the cubic tiling (G-CUBIC) and of prism tilings (G-PRISM) by space groups: known euclidean
pub fn cubic_cases(count: usize, max_n: usize) -> Vec<TorCase> {
    use rayon::prelude::*;
    (0..count)
        .into_par_iter()
        .map(|k| {
            let mut h = (k as u64 + 1).wrapping_mul(0x9e37_79b9_7f4a_7c15);
            let mut next = || {
                h ^= h >> 29;
                h = h.wrapping_mul(0xbf58_476d_1ce4_e5b9);
                h ^= h >> 32;
                (h & 0xffff_ffff) as u32
            };
            let n = if max_n >= 4 && k % 11 == 10 { 4 } else if max_n >= 3 && k % 5 == 4 { 3 } else { 2 };
            let ng = 1 + (next() % 3) as usize;
            let (ds, text) = if k % 3 == 2 {
                let which = (next() % 4) as usize;
                let codes: Vec<(u32, u32)> = (0..ng).map(|_| (next(), next())).collect();
                crate::gen::prismatic::quotient_by_codes(which, &codes)
            } else {
                let codes: Vec<u32> = (0..ng).map(|_| next()).collect();
                crate::gen::cubic::quotient_by_codes(n, &codes)
            };
            TorCase { swaps: vec![(next(), next()), (next(), next())], dual: k % 2 == 1, ds, known: text, kind: String::new() }
        })
        .collect()
}

/// proptest strategy over G-CUBIC and G-PRISM: family / box size, 1..=3 generating isometries, renumbering, dual
pub fn cubic_strategy(max_n: usize) -> impl Strategy<Value = TorCase> {
    (0usize..14, prop::collection::vec((any::<u32>(), any::<u32>()), 1..=3), prop::collection::vec((any::<u32>(), any::<u32>()), 0..6), any::<bool>()).prop_map(move |(nn, codes, swaps, dual)| {
        let n = if max_n >= 4 && nn == 9 { 4 } else if max_n >= 3 && nn >= 7 { 3 } else { 2 };
        let (ds, text) = if nn >= 10 {
            crate::gen::prismatic::quotient_by_codes(nn - 10, &codes)
        } else {
            crate::gen::cubic::quotient_by_codes(n, &codes.iter().map(|c| c.0).collect::<Vec<_>>())
        };
        TorCase { ds, swaps, dual, known: text, kind: String::new() }
    })
}

/// closed 3-manifolds of known topology (G-MANIFOLD): connected sums of cubical T^3, S^2 x S^1, S^3, RP^3
pub fn manifold_cases(picks: u32, large: bool) -> Vec<TorCase> {
    use crate::gen::manifold::{corpus, Known};
    let mut out = vec![];
    for pick in 0..picks {
        for (k, (ds, name, known)) in corpus(pick, large).into_iter().enumerate() {
            if pick > 0 && k < 3 {
                continue; // the three building blocks do not depend on `pick`
            }
            let kind = match known {
                Known::Torus => "weak",
                Known::NotFlat => "notflat",
            };
            out.push(TorCase { swaps: vec![(pick.wrapping_mul(0x9e37_79b9), (k as u32 + 1).wrapping_mul(0x85eb_ca6b))], dual: (k + pick as usize) % 2 == 1, ds, known: format!("{} (gluing choice {})", name, pick), kind: kind.into() });
        }
    }
    out
}

pub fn run(ctx: &mut Ctx) {
    let t = ctx.tier;
    ctx.rule = "all 3D symbols with good spherical tiles and vertex figures and branching in {1,2,3,4,6} over all enumerated 3D D-sets up to a size bound (own backtracking), each with a renumbered or dual variant and its 2-sheeted covers; the literature corpus; products (euclidean 2D symbol) x (line tiling); proptest-generated renumberings of all of them".into();
    ctx.assume("'undecided' is a legitimate answer except on the known-euclidean corpora");
    ctx.assume("product symbols are known to be euclidean by construction (plane group x line group), not by anything the crate computes");
    ctx.assume("the quotient of the cubic tiling of E^3 (or of a triangular / square prism tiling) by a group generated by lattice translations and isometries that map the tiling to itself is a euclidean symbol by definition");
    ctx.assume("a closed manifold homeomorphic to T^3 (T^3 # S^3 built by tile surgery) is euclidean; S^2 x S^1, RP^3 and connected sums of them are not (flat manifolds are irreducible with infinite group)");
    ctx.assume("simplify iterates over a HashSet: each symbol is evaluated twice in the same process and a difference counts as a violation of invariance");
    crate::props::run_regressions(ctx, "C17");
    ctx.layer("exhaustive");
    let (pool, pool_text) = symbol_pool(t.pick(4, 5), t.pick(5, 6), t.pick(40, 25));
    let mut cases: Vec<TorCase> = vec![];
    for (k, s) in pool.into_iter().enumerate() {
        cases.push(TorCase { swaps: vec![((k as u32).wrapping_mul(0x9e37_79b9), (k as u32 + 7).wrapping_mul(0x85eb_ca6b))], dual: k % 2 == 1, ds: s, known: String::new(), kind: String::new() });
    }
    cases.extend(corpus_cases(t.pick(4, 6)));
    let (ncub, nman) = (t.pick(600, 6000), t.pick(3, 10));
    cases.extend(cubic_cases(ncub, t.pick(3, 4)));
    cases.extend(manifold_cases(nman, true));
    let n = cases.len();
    ctx.run_par(&SUB_VERDICT, cases.clone(), Some(&format!("{} cases: 3D symbols with spherical links and branching in {{1,2,3,4,6}}: {}; 20 literature symbols; products of all euclidean 2D symbols with <= {} chambers with the 4 line tilings; {} quotients of the cubic tiling and of triangular / square prism tilings by space groups (known euclidean); cubical 3-manifolds of known topology (T^3, T^3 # S^3: euclidean; S^2 x S^1, RP^3 and connected sums: not) with {} gluing choices", n, pool_text, t.pick(4, 6), ncub, nman)));
    ctx.layer("random-space-group-quotients");
    let max_n = t.pick(3, 4);
    ctx.run_prop(&SUB_VERDICT, move || cubic_strategy(max_n), t.pick(1_500, 20_000));
    ctx.layer("random");
    // renumberings are spent on the cases that get past the invariant filter (selection only, not an oracle)
    let pool = {
        use rayon::prelude::*;
        Arc::new(cases.into_par_iter().filter(|c| !c.known.is_empty() || !matches!(guarded(|| verdict(&c.ds, false)), Ok(Verdict::No(m)) if m == "orbifold invariants do not match")).collect::<Vec<_>>())
    };
    ctx.run_prop(
        &SUB_VERDICT,
        move || {
            let p = pool.clone();
            (any::<u32>(), prop::collection::vec((any::<u32>(), any::<u32>()), 0..8), any::<bool>()).prop_map(move |(k, swaps, dual)| {
                let mut c = p[pick_index(k, p.len())].clone();
                c.swaps = swaps;
                c.dual = dual;
                c
            })
        },
        t.pick(1_500, 30_000),
    );
}

pub fn replay(ctx: &mut Ctx, sub: &str, case: &Value) -> Option<Result<(), String>> {
    Some(match sub {
        "verdict" => ctx.run_one(&SUB_VERDICT, &TorCase::decode(case)?),
        _ => return None,
    })
}
