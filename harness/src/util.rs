//! small encoding helpers
use serde_json::{json, Value};

pub fn enc_ints(v: &[i64]) -> Value {
    json!(v)
}
pub fn dec_ints(v: &Value) -> Option<Vec<i64>> {
    v.as_array()?.iter().map(|x| x.as_i64()).collect()
}
pub fn enc_usizes(v: &[usize]) -> Value {
    json!(v)
}
pub fn dec_usizes(v: &Value) -> Option<Vec<usize>> {
    v.as_array()?.iter().map(|x| x.as_u64().map(|y| y as usize)).collect()
}
pub fn enc_words(v: &[Vec<i64>]) -> Value {
    json!(v)
}
pub fn dec_words(v: &Value) -> Option<Vec<Vec<i64>>> {
    v.as_array()?.iter().map(dec_ints).collect()
}

/// hash anything hashable to 64 bit (stable within a run)
pub fn h64<T: std::hash::Hash>(t: &T) -> u64 {
    use std::hash::Hasher;
    let mut h = std::collections::hash_map::DefaultHasher::new();
    t.hash(&mut h);
    h.finish()
}

#[macro_export]
macro_rules! ensure {
    ($cond:expr, $($arg:tt)*) => {
        if !($cond) {
            return Err(format!($($arg)*));
        }
    };
}

/// Iterator protocol: however an iterator of the crate is consumed (next, nth, skip, step_by, take, last,
/// count), it must yield the items that repeated next() yields, in the same order; `key` turns an item
/// into something comparable (e.g. its text including counters). `programs` fixed pseudo-random
/// consumption programs are run, each on a fresh iterator from `make`.
pub fn iter_protocol<'a, T, I, K>(make: impl Fn() -> I, key: impl Fn(&T) -> K, programs: usize, what: &str) -> Result<usize, String>
where
    I: Iterator<Item = T> + 'a,
    T: 'a,
    K: PartialEq + std::fmt::Debug,
{
    let base: Vec<K> = make().map(|x| key(&x)).collect();
    let mut exercised = 0;
    for p in 0..programs {
        let mut it: Box<dyn Iterator<Item = T> + 'a> = Box::new(make());
        // indices into `base` that the adapted iterator still has to yield
        let mut rest: std::collections::VecDeque<usize> = (0..base.len()).collect();
        let mut trace = String::new();
        let mut s = (p as u64).wrapping_mul(0x9E37_79B9_7F4A_7C15) ^ 0xD1B5_4A32_D192_ED03;
        let mut rnd = |n: u64| {
            s ^= s << 13;
            s ^= s >> 7;
            s ^= s << 17;
            s % n
        };
        for _step in 0..12 {
            let op = rnd(8);
            match op {
                0 | 1 => {
                    trace.push_str(".next()");
                    let got = it.next().map(|x| key(&x));
                    let exp = rest.pop_front();
                    if got.as_ref() != exp.map(|i| &base[i]) {
                        return Err(format!("{}: iter{} yields {:?}, repeated next() yields {:?} at that place", what, trace, got, exp.map(|i| &base[i])));
                    }
                }
                2 => {
                    let k = rnd(4) as usize;
                    trace.push_str(&format!(".nth({})", k));
                    let got = it.nth(k).map(|x| key(&x));
                    for _ in 0..k {
                        rest.pop_front();
                    }
                    let exp = rest.pop_front();
                    if got.as_ref() != exp.map(|i| &base[i]) {
                        return Err(format!("{}: iter{} yields {:?}, repeated next() yields {:?} at that place", what, trace, got, exp.map(|i| &base[i])));
                    }
                }
                3 => {
                    let k = rnd(4) as usize;
                    trace.push_str(&format!(".skip({})", k));
                    it = Box::new(it.skip(k));
                    for _ in 0..k {
                        rest.pop_front();
                    }
                }
                4 => {
                    let k = 1 + rnd(3) as usize;
                    trace.push_str(&format!(".step_by({})", k));
                    it = Box::new(it.step_by(k));
                    rest = rest.iter().cloned().step_by(k).collect();
                }
                5 => {
                    let k = rnd(6) as usize + rest.len() / 2;
                    trace.push_str(&format!(".take({})", k));
                    it = Box::new(it.take(k));
                    rest.truncate(k);
                }
                6 => {
                    let (lo, hi) = it.size_hint();
                    if lo > rest.len() || hi.map_or(false, |h| h < rest.len()) {
                        return Err(format!("{}: iter{}.size_hint() = ({}, {:?}) with {} items left", what, trace, lo, hi, rest.len()));
                    }
                }
                _ => {
                    if rnd(2) == 0 {
                        trace.push_str(".last()");
                        let got = it.last().map(|x| key(&x));
                        let exp = rest.back().cloned();
                        if got.as_ref() != exp.map(|i| &base[i]) {
                            return Err(format!("{}: iter{} yields {:?}, the last item of repeated next() is {:?}", what, trace, got, exp.map(|i| &base[i])));
                        }
                    } else {
                        trace.push_str(".count()");
                        let got = it.count();
                        if got != rest.len() {
                            return Err(format!("{}: iter{} = {}, repeated next() yields {} more items", what, trace, got, rest.len()));
                        }
                    }
                    it = Box::new(std::iter::empty());
                    rest.clear();
                    break;
                }
            }
        }
        // drain: everything that is left must come out in order
        let tail: Vec<K> = it.map(|x| key(&x)).collect();
        let exp: Vec<&K> = rest.iter().map(|&i| &base[i]).collect();
        if tail.len() != exp.len() || tail.iter().zip(exp.iter()).any(|(a, b)| a != *b) {
            return Err(format!("{}: iter{} then yields {:?}, repeated next() yields {:?}", what, trace, tail.iter().take(6).collect::<Vec<_>>(), exp.iter().take(6).collect::<Vec<_>>()));
        }
        exercised += 1;
    }
    Ok(exercised)
}
