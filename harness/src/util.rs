//! small encoding helpers
use serde_json::{json, Value};

pub fn enc_ints(v: &[i64]) -> Value {
    json!(v)
}
pub fn dec_ints(v: &Value) -> Option<Vec<i64>> {
    v.as_array()?.iter().map(|x| x.as_i64()).collect()
}
pub fn enc_usizes(v: &[usize]) -> Value {
    json!(v)
}
pub fn dec_usizes(v: &Value) -> Option<Vec<usize>> {
    v.as_array()?.iter().map(|x| x.as_u64().map(|y| y as usize)).collect()
}
pub fn enc_words(v: &[Vec<i64>]) -> Value {
    json!(v)
}
pub fn dec_words(v: &Value) -> Option<Vec<Vec<i64>>> {
    v.as_array()?.iter().map(dec_ints).collect()
}

/// hash anything hashable to 64 bit (stable within a run)
pub fn h64<T: std::hash::Hash>(t: &T) -> u64 {
    use std::hash::Hasher;
    let mut h = std::collections::hash_map::DefaultHasher::new();
    t.hash(&mut h);
    h.finish()
}

#[macro_export]
macro_rules! ensure {
    ($cond:expr, $($arg:tt)*) => {
        if !($cond) {
            return Err(format!($($arg)*));
        }
    };
}
