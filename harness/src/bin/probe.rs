//! development probe (not part of any check)
//!   probe dsets <dim> <n>          time / count the harness's own D-set enumeration
//!   probe invariant "<symbol>"     print the orbifold invariant string of a 3D symbol
use dsv::gen::dsets::*;
use dsv::model::DS;
use rust_dsymbols::delaney3d::orbifold_graph;
use rust_dsymbols::dsets::DSet;
use rust_dsymbols::fpgroups::invariants::abelian_invariants;
use rust_dsymbols::fundamental_group::fundamental_group;
fn main() {
    let args: Vec<String> = std::env::args().collect();
    match args[1].as_str() {
        "dsets" => {
            let (dim, n): (usize, usize) = (args[2].parse().unwrap(), args[3].parse().unwrap());
            let t = std::time::Instant::now();
            let v = dsets_of_size(dim, n);
            println!("dim {} n {}: {} classes in {:?}", dim, n, v.len(), t.elapsed());
        }
        "manifolds" => {
            use dsv::gen::manifold::*;
            let large = args.get(2).map_or(false, |a| a == "large");
            let t = std::time::Instant::now();
            let c = corpus(1, large);
            eprintln!("corpus built in {:?}", t.elapsed());
            for (s, name, known) in c {
                let t = std::time::Instant::now();
                let h = dsv::props::c15::h1(&s);
                eprintln!("{} chambers {} manifold {} H1 {:?} ({:?})", name, s.size, is_manifold_symbol(&s), h, t.elapsed());
                let t = std::time::Instant::now();
                let v = dsv::runner::guarded(|| dsv::props::c17::verdict(&s, false));
                println!("{}\t{:?}\t{:?}\t{:?}", name, known, v, t.elapsed());
            }
        }
        "cubic" => {
            use dsv::gen::cubic::*;
            use rayon::prelude::*;
            let n: usize = args[2].parse().unwrap();
            let count: u32 = args[3].parse().unwrap();
            let minsize: usize = args.get(4).map_or(1, |a| a.parse().unwrap());
            let res: Vec<String> = (0..count).into_par_iter().filter_map(|k| {
                let mut h = (k as u64 + 1).wrapping_mul(0x9e3779b97f4a7c15);
                let mut next = || { h ^= h >> 29; h = h.wrapping_mul(0xbf58476d1ce4e5b9); h ^= h >> 32; (h & 0xffff_ffff) as u32 };
                let ng = 1 + (next() % 3) as usize;
                let codes: Vec<u32> = (0..ng).map(|_| next()).collect();
                let (ds, text) = quotient_by_codes(n, &codes);
                if ds.size < minsize { return None; }
                let t = std::time::Instant::now();
                let v = dsv::runner::guarded(|| dsv::props::c17::verdict(&ds, false));
                Some(format!("{}\t{:?}\t{:?}\t{}", ds.size, v, t.elapsed(), text))
            }).collect();
            for l in res { println!("{}", l); }
        }
        "prism" => {
            use dsv::gen::prismatic::*;
            use rayon::prelude::*;
            let count: u32 = args[2].parse().unwrap();
            let res: Vec<String> = (0..count).into_par_iter().map(|k| {
                let mut h = (k as u64 + 1).wrapping_mul(0x9e3779b97f4a7c15);
                let mut next = || { h ^= h >> 29; h = h.wrapping_mul(0xbf58476d1ce4e5b9); h ^= h >> 32; (h & 0xffff_ffff) as u32 };
                let which = (next() % 4) as usize;
                let ng = 1 + (next() % 3) as usize;
                let codes: Vec<(u32, u32)> = (0..ng).map(|_| (next(), next())).collect();
                let (ds, text) = quotient_by_codes(which, &codes);
                let t = std::time::Instant::now();
                let v = dsv::runner::guarded(|| dsv::props::c17::verdict(&ds, false));
                format!("{}\t{:?}\t{:?}\t{}\t{}", ds.size, v, t.elapsed(), dsv::gen::dsym3::has_spherical_links(&ds), text)
            }).collect();
            for l in res { println!("{}", l); }
        }
        "timeptc" => {
            let v: serde_json::Value = serde_json::from_str(&std::fs::read_to_string(&args[2]).unwrap()).unwrap();
            let c = v.get("case").unwrap();
            let ds = DS::decode(c.get("symbol").or(c.get("base")).unwrap()).unwrap();
            let t = std::time::Instant::now();
            let y = rust_dsymbols::delaney3d::pseudo_toroidal_cover(&ds.to_partial()).map(|y| DS::from_dsym(&y));
            eprintln!("crate ptc: {:?} -> {:?} chambers", t.elapsed(), y.as_ref().map(|y| y.size));
            if let Some(y) = y {
                let t = std::time::Instant::now();
                let r = dsv::gen::covers::check_projection(&ds, &y);
                eprintln!("check_projection: {:?} {:?}", t.elapsed(), r.is_ok());
                let t = std::time::Instant::now();
                let fg = dsv::oracle::fg::own_fundamental_group(&y);
                eprintln!("own fg: {:?} gens {} rels {}", t.elapsed(), fg.pres.nr_gens, fg.pres.rels.len());
                let t = std::time::Instant::now();
                let h = dsv::props::c15::h1(&y);
                eprintln!("h1: {:?} {:?}", t.elapsed(), h);
            }
        }
        "flatsearch" => {
            use dsv::gen::prismatic::*;
            use dsv::gen::manifold::is_manifold_symbol;
            let which: usize = args[2].parse().unwrap();
            let (base, k, name) = family(which);
            eprintln!("{} base {} k {}", name, base.size, k);
            for e2 in 0..base.size {
                for e1 in 0..2 * k {
                    let (ds, used) = prism_quotient(&base, k, &[(e2, e1)]);
                    if used == 1 && is_manifold_symbol(&ds) && ds.size < 3 * base.size * 2 * k {
                        println!("e2={} e1={} size={} H1={:?} oriented={}", e2, e1, ds.size, dsv::props::c15::h1(&ds), dsv::props::c15::is_oriented(&ds));
                    }
                }
            }
        }
        "timecovers" => {
            let ds = DS::parse(&args[2]).unwrap();
            let k: usize = args[3].parse().unwrap();
            let t = std::time::Instant::now();
            let list = rust_dsymbols::covers::covers(&ds.to_partial(), k);
            eprintln!("covers: {} in {:?}", list.len(), t.elapsed());
            let t = std::time::Instant::now();
            let f = dsv::gen::covers::frame(&ds);
            for y in &list {
                let y = DS::from_dsym(y);
                let j = dsv::gen::covers::check_projection(&ds, &y).unwrap();
                let v = dsv::gen::covers::voltages_from_cover(&ds, &f, &y).unwrap();
                let _ = dsv::gen::covers::canonical_voltages(&v, j);
            }
            eprintln!("validation: {:?}", t.elapsed());
        }
        "g5" => {
            use dsv::gen::manifold::*;
            let c = corpus(1, true);
            let which: usize = args[2].parse().unwrap();
            let (ds, name, _) = &c[c.len() - 2 + which];
            eprintln!("{} {} chambers manifold {}", name, ds.size, is_manifold_symbol(ds));
            let t = std::time::Instant::now();
            eprintln!("H1 {:?} ({:?})", dsv::props::c15::h1(ds), t.elapsed());
            let t = std::time::Instant::now();
            let y = rust_dsymbols::delaney3d::pseudo_toroidal_cover(&ds.to_partial());
            eprintln!("ptc: {:?} chambers ({:?})", y.as_ref().map(|y| rust_dsymbols::dsets::DSet::size(y)), t.elapsed());
            if let Some(y) = y {
                let t = std::time::Instant::now();
                let s = rust_dsymbols::simplify::simplify(&y);
                eprintln!("simplify: {:?} ({:?})", s.as_ref().map(|y| (rust_dsymbols::dsets::DSet::size(y), rust_dsymbols::dsets::DSet::is_connected(y))), t.elapsed());
            }
            let t = std::time::Instant::now();
            eprintln!("verdict {:?} ({:?})", dsv::props::c17::verdict(ds, false), t.elapsed());
        }
        "lowcounts" => {
            // probe lowcounts <nr_gens> <k> <rel;rel;...> with letters as integers separated by commas
            let g: usize = args[2].parse().unwrap();
            let k: usize = args[3].parse().unwrap();
            let rels: Vec<rust_dsymbols::fpgroups::free_words::FreeWord> = args[4].split(';').filter(|r| !r.is_empty()).map(|r| dsv::props::c11::fw(&r.split(',').map(|x| x.parse::<i64>().unwrap()).collect::<Vec<_>>())).collect();
            let mut by = vec![0usize; k + 1];
            for t in rust_dsymbols::fpgroups::cosets::coset_tables(g, &rels, k) { by[t.len()] += 1; }
            println!("{:?}", &by[1..]);
        }
        "dupidx" => {
            use rust_dsymbols::dsets::DSet;
            let ds = DS::parse(&args[2]).unwrap().to_partial();
            println!("orbit([0,1],1) = {:?}", ds.orbit([0usize, 1], 1));
            println!("orbit([0,0,1,1],1) = {:?}", ds.orbit([0usize, 0, 1, 1], 1));
            println!("orbit([1,0,1],1) = {:?}", ds.orbit([1usize, 0, 1], 1));
            println!("orbit_reps([0,1],1..) = {:?}", ds.orbit_reps([0usize, 1], 1..=ds.size()));
            println!("orbit_reps([0,1,0],[1,1,2,2,...]) = {:?}", ds.orbit_reps([0usize, 1, 0], (1..=ds.size()).flat_map(|d| [d, d])));
            println!("traversal([0,1],[1]) = {:?}", ds.traversal([0usize, 1], [1usize]).collect::<Vec<_>>());
            println!("traversal([0,0,1],[1,1]) = {:?}", ds.traversal([0usize, 0, 1], [1usize, 1]).collect::<Vec<_>>());
        }
        "interesting3d" => {
            // 3D symbols of a given size whose euclidicity verdict is decided after simplification
            use rayon::prelude::*;
            let n: usize = args[2].parse().unwrap();
            let syms = dsv::gen::dsym3::symbols_of_size(n, &dsv::gen::dsym3::CRYSTALLOGRAPHIC);
            eprintln!("{} symbols", syms.len());
            let out: Vec<String> = syms
                .par_iter()
                .filter_map(|s| {
                    let v = dsv::runner::guarded(|| dsv::props::c17::verdict(s, false));
                    match v {
                        Ok(dsv::props::c17::Verdict::No(m)) if m == "orbifold invariants do not match" || m == "no pseudo-toroidal cover" => None,
                        Ok(dsv::props::c17::Verdict::Yes) => None,
                        Ok(v) => Some(format!("{}\t{:?}", s.text(), v)),
                        Err(p) => Some(format!("{}\tPANIC {}", s.text(), p)),
                    }
                })
                .collect();
            for l in out {
                println!("{}", l);
            }
        }
        _ => {
            let ds = DS::parse(&args[2]).unwrap().to_partial();
            let (labels, edges) = orbifold_graph(&ds);
            let fg = fundamental_group(&ds);
            let inv = abelian_invariants(fg.nr_generators(), &fg.relators);
            let mut parts = vec![labels.len().to_string()];
            parts.extend(labels);
            parts.push(if ds.is_oriented() { "2".into() } else if ds.is_weakly_oriented() { "1".into() } else { "0".to_string() });
            parts.push(edges.len().to_string());
            parts.push(inv.len().to_string());
            parts.extend(inv.iter().map(|n| n.to_string()));
            parts.push("".to_string());
            println!("{}", parts.join("/"));
        }
    }
}
