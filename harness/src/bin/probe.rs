//! development probe (not part of any check)
use dsv::gen::dsets::*;
fn main() {
    let args: Vec<String> = std::env::args().collect();
    let dim: usize = args[1].parse().unwrap();
    let n: usize = args[2].parse().unwrap();
    let t = std::time::Instant::now();
    let v = dsets_of_size(dim, n);
    println!("dim {} n {}: {} classes in {:?}", dim, n, v.len(), t.elapsed());
}
