//! development probe (not part of any check)
//!   probe dsets <dim> <n>          time / count the harness's own D-set enumeration
//!   probe invariant "<symbol>"     print the orbifold invariant string of a 3D symbol
use dsv::gen::dsets::*;
use dsv::model::DS;
use rust_dsymbols::delaney3d::orbifold_graph;
use rust_dsymbols::dsets::DSet;
use rust_dsymbols::fpgroups::invariants::abelian_invariants;
use rust_dsymbols::fundamental_group::fundamental_group;
fn main() {
    let args: Vec<String> = std::env::args().collect();
    match args[1].as_str() {
        "dsets" => {
            let (dim, n): (usize, usize) = (args[2].parse().unwrap(), args[3].parse().unwrap());
            let t = std::time::Instant::now();
            let v = dsets_of_size(dim, n);
            println!("dim {} n {}: {} classes in {:?}", dim, n, v.len(), t.elapsed());
        }
        "interesting3d" => {
            // 3D symbols of a given size whose euclidicity verdict is decided after simplification
            use rayon::prelude::*;
            let n: usize = args[2].parse().unwrap();
            let syms = dsv::gen::dsym3::symbols_of_size(n, &dsv::gen::dsym3::CRYSTALLOGRAPHIC);
            eprintln!("{} symbols", syms.len());
            let out: Vec<String> = syms
                .par_iter()
                .filter_map(|s| {
                    let v = dsv::runner::guarded(|| dsv::props::c17::verdict(s, false));
                    match v {
                        Ok(dsv::props::c17::Verdict::No(m)) if m == "orbifold invariants do not match" || m == "no pseudo-toroidal cover" => None,
                        Ok(dsv::props::c17::Verdict::Yes) => None,
                        Ok(v) => Some(format!("{}\t{:?}", s.text(), v)),
                        Err(p) => Some(format!("{}\tPANIC {}", s.text(), p)),
                    }
                })
                .collect();
            for l in out {
                println!("{}", l);
            }
        }
        _ => {
            let ds = DS::parse(&args[2]).unwrap().to_partial();
            let (labels, edges) = orbifold_graph(&ds);
            let fg = fundamental_group(&ds);
            let inv = abelian_invariants(fg.nr_generators(), &fg.relators);
            let mut parts = vec![labels.len().to_string()];
            parts.extend(labels);
            parts.push(if ds.is_oriented() { "2".into() } else if ds.is_weakly_oriented() { "1".into() } else { "0".to_string() });
            parts.push(edges.len().to_string());
            parts.push(inv.len().to_string());
            parts.extend(inv.iter().map(|n| n.to_string()));
            parts.push("".to_string());
            println!("{}", parts.join("/"));
        }
    }
}
