//! development probe (not part of any check)
//!   probe dsets <dim> <n>          time / count the harness's own D-set enumeration
//!   probe invariant "<symbol>"     print the orbifold invariant string of a 3D symbol
use dsv::gen::dsets::*;
use dsv::model::DS;
use rust_dsymbols::delaney3d::orbifold_graph;
use rust_dsymbols::dsets::DSet;
use rust_dsymbols::fpgroups::invariants::abelian_invariants;
use rust_dsymbols::fundamental_group::fundamental_group;
fn main() {
    let args: Vec<String> = std::env::args().collect();
    match args[1].as_str() {
        "dsets" => {
            let (dim, n): (usize, usize) = (args[2].parse().unwrap(), args[3].parse().unwrap());
            let t = std::time::Instant::now();
            let v = dsets_of_size(dim, n);
            println!("dim {} n {}: {} classes in {:?}", dim, n, v.len(), t.elapsed());
        }
        _ => {
            let ds = DS::parse(&args[2]).unwrap().to_partial();
            let (labels, edges) = orbifold_graph(&ds);
            let fg = fundamental_group(&ds);
            let inv = abelian_invariants(fg.nr_generators(), &fg.relators);
            let mut parts = vec![labels.len().to_string()];
            parts.extend(labels);
            parts.push(if ds.is_oriented() { "2".into() } else if ds.is_weakly_oriented() { "1".into() } else { "0".to_string() });
            parts.push(edges.len().to_string());
            parts.push(inv.len().to_string());
            parts.extend(inv.iter().map(|n| n.to_string()));
            parts.push("".to_string());
            println!("{}", parts.join("/"));
        }
    }
}
