//! CLI:  check <Cxx> <quick|thorough>   |   check <Cxx> --replay <file>
//! The parent process forks a worker (same binary) so that aborts, stack overflows and hangs of
//! the code under test are observed from outside.
use dsv::props;
use dsv::runner::*;
use serde_json::{json, Value};
use std::process::{Command, Stdio};
use std::time::{Duration, Instant};

fn usage() -> ! {
    eprintln!("usage: check <C01..C20> <quick|thorough> | check <Cxx> --replay <file>");
    std::process::exit(2);
}

fn seed_from_env() -> u64 {
    std::env::var("VERIF_SEED").ok().and_then(|s| s.trim().parse::<i128>().ok()).map(|x| x as u64).unwrap_or(20260926)
}

fn worker(prop: &'static str, mode: &str, arg: Option<&str>) -> i32 {
    install_panic_hook();
    let seed = seed_from_env();
    if mode == "--replay" {
        let path = arg.unwrap_or_else(|| usage());
        let doc: Value = match std::fs::read_to_string(path).ok().and_then(|t| serde_json::from_str(&t).ok()) {
            Some(d) => d,
            None => {
                eprintln!("cannot read replay file {}", path);
                return 2;
            }
        };
        let sub = doc.get("subcheck").and_then(|s| s.as_str()).unwrap_or("").to_string();
        let case = doc.get("case").cloned().unwrap_or(Value::Null);
        let mut ctx = Ctx::new(prop, Tier::Quick, seed);
        ctx.strict = true;
        return match props::replay(&mut ctx, &sub, &case) {
            Some(Ok(())) => {
                println!("REPLAY-OK property={} subcheck={}", prop, sub);
                0
            }
            Some(Err(msg)) => {
                println!("replayed failure: {}", msg);
                println!("VIOLATION property={} replay={}", prop, path);
                1
            }
            None => {
                eprintln!("replay file does not name a decodable case of {}", prop);
                2
            }
        };
    }
    let tier = match mode {
        "quick" => Tier::Quick,
        "thorough" => Tier::Thorough,
        _ => usage(),
    };
    let mut ctx = Ctx::new(prop, tier, seed);
    let case_budget = std::env::var("DSV_CASE_BUDGET_S").ok().and_then(|s| s.parse().ok()).unwrap_or(if tier == Tier::Quick { 150 } else { 900 });
    start_case_watchdog(prop, case_budget);
    if !props::run(&mut ctx) {
        eprintln!("no check implemented for {}", prop);
        return 2;
    }
    ctx.finish()
}

fn main() {
    let args: Vec<String> = std::env::args().collect();
    if args.len() < 3 {
        usage();
    }
    let prop = props::static_id(&args[1]).unwrap_or_else(|| usage());
    let mode = args[2].as_str();
    if std::env::var("DSV_WORKER").is_ok() {
        std::process::exit(worker(prop, mode, args.get(3).map(|s| s.as_str())));
    }
    if mode == "--fuzz" {
        // ./check Cxx --fuzz [runs]: only the libFuzzer supplement
        let runs: u64 = args.get(3).and_then(|s| s.parse().ok()).unwrap_or(200_000);
        std::process::exit(fuzz_stage(prop, runs));
    }
    // parent
    let budget = match mode {
        "quick" => 1500,
        "thorough" => 6 * 3600,
        _ => 900,
    };
    let budget = std::env::var("DSV_BUDGET_S").ok().and_then(|s| s.parse().ok()).unwrap_or(budget);
    let start = Instant::now();
    let _ = std::fs::remove_file(Journal::path(prop));
    let mut child = Command::new(std::env::current_exe().unwrap())
        .args(&args[1..])
        .env("DSV_WORKER", "1")
        .stdin(Stdio::null())
        .spawn()
        .expect("cannot spawn worker");
    let status = loop {
        match child.try_wait() {
            Ok(Some(st)) => break Some(st),
            Ok(None) => {
                if start.elapsed() > Duration::from_secs(budget) {
                    let _ = child.kill();
                    let _ = child.wait();
                    break None;
                }
                std::thread::sleep(Duration::from_millis(20));
            }
            Err(_) => break None,
        }
    };
    let code = match status {
        None => {
            println!("INCONCLUSIVE property={} watchdog: run exceeded {} s (slowness is never reported as a violation)", prop, budget);
            2
        }
        Some(st) => match st.code() {
            Some(c @ (0 | 1 | 2)) => c,
            other => {
                // the worker died: abort / stack overflow / signal. Use the journal.
                let j = std::fs::read_to_string(Journal::path(prop)).unwrap_or_default();
                match serde_json::from_str::<Value>(j.trim()) {
                    Ok(doc) if mode != "--replay" => {
                        let dir = verif_root().join("replays");
                        let _ = std::fs::create_dir_all(&dir);
                        let path = dir.join(format!("{}-abort-{}.json", prop, std::process::id()));
                        let out = json!({
                            "property": prop,
                            "subcheck": doc.get("subcheck"),
                            "case": doc.get("case"),
                            "observed": format!("worker process died (status {:?}) while executing this case", other),
                        });
                        let _ = std::fs::write(&path, serde_json::to_string_pretty(&out).unwrap());
                        // confirm in a fresh worker
                        let confirm = Command::new(std::env::current_exe().unwrap())
                            .args([prop, "--replay", path.to_str().unwrap()])
                            .env("DSV_WORKER", "1")
                            .stdout(Stdio::null())
                            .stderr(Stdio::null())
                            .status();
                        let died_again = confirm.map(|s| !matches!(s.code(), Some(0 | 1 | 2))).unwrap_or(false);
                        let failed_again = confirm_failed(prop, &path);
                        if died_again || failed_again {
                            write_abort_evidence(prop, mode, &out);
                            println!("VIOLATION property={} replay={}", prop, path.display());
                            1
                        } else {
                            println!("INCONCLUSIVE property={} worker died (status {:?}) but the journaled case does not reproduce", prop, other);
                            2
                        }
                    }
                    _ => {
                        if mode == "--replay" {
                            // a replayed case that kills the process is a reproduced violation
                            println!("replayed failure: worker process died (status {:?})", other);
                            println!("VIOLATION property={} replay={}", prop, args.get(3).cloned().unwrap_or_default());
                            1
                        } else {
                            println!("INCONCLUSIVE property={} worker died (status {:?}) outside a journaled case", prop, other);
                            2
                        }
                    }
                }
            }
        },
    };
    // libFuzzer supplement (thorough tier of C01 / C10 / C14 / C18 / C19 / C20 only; DSV_FUZZ=0 switches it off)
    let code = if code == 0 && mode == "thorough" && dsv::fuzz::target_of(prop).is_some() && std::env::var("DSV_FUZZ").map_or(true, |v| v != "0") {
        // fixed work per target: the oracles of C14 / C18 / C19 cost about a millisecond per execution under ASan
        let default_runs = match prop {
            "C14" => 400_000u64,
            // c18_matrix runs all six routines on both representations against BigRational elimination:
            // about 8 ms per execution under ASan
            "C18" => 50_000,
            "C19" => 1_000_000,
            _ => 3_000_000,
        };
        let runs = std::env::var("DSV_FUZZ_RUNS").ok().and_then(|s| s.parse().ok()).unwrap_or(default_runs);
        fuzz_stage(prop, runs)
    } else {
        code
    };
    std::process::exit(code);
}

/// Build and run the libFuzzer target of a property on a fresh corpus seeded by the harness.
/// 0 = no crash, 1 = VIOLATION printed (artifact converted into a replay file), and 0 with a
/// "fuzz stage skipped" line if the nightly toolchain step fails for environmental reasons.
fn fuzz_stage(prop: &str, runs: u64) -> i32 {
    let target = match dsv::fuzz::target_of(prop) {
        Some(t) => t,
        None => {
            eprintln!("no fuzz target for {}", prop);
            return 2;
        }
    };
    let root = verif_root();
    let fuzz_dir = root.join("fuzz");
    let corpus = fuzz_dir.join("corpus").join(target);
    let artifacts = fuzz_dir.join("artifacts").join(target);
    let _ = std::fs::remove_dir_all(&corpus);
    let _ = std::fs::remove_dir_all(&artifacts);
    let _ = std::fs::create_dir_all(&corpus);
    let _ = std::fs::create_dir_all(&artifacts);
    for (k, bytes) in dsv::fuzz::seed_corpus(prop).iter().enumerate() {
        let _ = std::fs::write(corpus.join(format!("seed-{:03}", k)), bytes);
    }
    let dict = fuzz_dir.join("c01.dict");
    let _ = std::fs::write(&dict, dsv::fuzz::C01_DICT);
    let seed = seed_from_env() % 2_000_000_000 + 1;
    let start = Instant::now();
    let build = Command::new("cargo").args(["+nightly", "fuzz", "build", "--fuzz-dir", fuzz_dir.to_str().unwrap(), target]).current_dir(root.join("harness")).env("CARGO_NET_OFFLINE", "true").env("RUSTFLAGS", "--cfg odf_rust_dsymbols_verif").stdout(Stdio::null()).stderr(Stdio::piped()).output();
    match build {
        Ok(o) if o.status.success() => {}
        Ok(o) => {
            let err = String::from_utf8_lossy(&o.stderr);
            println!("[{}] fuzz stage skipped: `cargo +nightly fuzz build {}` failed: {}", prop, target, err.lines().rev().take(3).collect::<Vec<_>>().join(" | "));
            return 0;
        }
        Err(e) => {
            println!("[{}] fuzz stage skipped: cannot run cargo: {}", prop, e);
            return 0;
        }
    }
    let mut cmd = Command::new("cargo");
    cmd.args(["+nightly", "fuzz", "run", "--fuzz-dir", fuzz_dir.to_str().unwrap(), target, corpus.to_str().unwrap(), "--"])
        .arg(format!("-runs={}", runs))
        .arg(format!("-seed={}", seed))
        .arg("-max_len=512")
        .arg("-len_control=0")
        .arg("-timeout=60")
        .arg("-print_final_stats=1")
        .arg(format!("-artifact_prefix={}/", artifacts.display()));
    if prop == "C01" {
        cmd.arg(format!("-dict={}", dict.display()));
    }
    let out = cmd.current_dir(root.join("harness")).env("CARGO_NET_OFFLINE", "true").env("RUSTFLAGS", "--cfg odf_rust_dsymbols_verif").stdout(Stdio::piped()).stderr(Stdio::piped()).output();
    let out = match out {
        Ok(o) => o,
        Err(e) => {
            println!("[{}] fuzz stage skipped: cannot run the target: {}", prop, e);
            return 0;
        }
    };
    let log = String::from_utf8_lossy(&out.stderr).to_string();
    let stat = |key: &str| log.lines().find(|l| l.contains(key)).and_then(|l| l.split_whitespace().last().map(|x| x.to_string())).unwrap_or_default();
    let execs = stat("stat::number_of_executed_units");
    let cov = log.lines().rev().find(|l| l.contains(" cov: ")).map(|l| l.split_whitespace().skip_while(|w| *w != "cov:").nth(1).unwrap_or("?").to_string()).unwrap_or_default();
    // a crash artifact?
    let arts: Vec<_> = std::fs::read_dir(&artifacts).map(|rd| rd.filter_map(|e| e.ok().map(|e| e.path())).collect()).unwrap_or_default();
    let crash = arts.iter().find(|p| p.file_name().map_or(false, |n| { let n = n.to_string_lossy(); n.starts_with("crash-") || n.starts_with("oom-") }));
    let slow = arts.iter().any(|p| p.file_name().map_or(false, |n| { let n = n.to_string_lossy(); n.starts_with("timeout-") || n.starts_with("slow-unit-") }));
    let mut ev_note = json!({"target": target, "runs_requested": runs, "executions": execs, "coverage_edges": cov, "seed": seed, "wall_s": start.elapsed().as_secs_f64(), "crash": crash.is_some()});
    let code = if let Some(a) = crash {
        let bytes = std::fs::read(a).unwrap_or_default();
        match dsv::fuzz::artifact_to_replay(prop, &bytes) {
            Some(doc) => {
                let dir = root.join("replays");
                let _ = std::fs::create_dir_all(&dir);
                let path = dir.join(format!("{}-fuzz-{}.json", prop, a.file_name().unwrap().to_string_lossy()));
                let _ = std::fs::write(&path, serde_json::to_string_pretty(&doc).unwrap());
                // confirm through the ordinary replay path
                if confirm_failed(prop, &path) || replay_dies(prop, &path) {
                    println!("VIOLATION property={} replay={}", prop, path.display());
                    ev_note["replay"] = json!(path.to_string_lossy());
                    1
                } else {
                    println!("[{}] fuzz stage: crash artifact {} does not reproduce through the replay path (ignored)", prop, a.display());
                    0
                }
            }
            None => 0,
        }
    } else if !out.status.success() && !slow {
        println!("[{}] fuzz stage skipped: the target ended with {:?} without an artifact: {}", prop, out.status.code(), log.lines().rev().take(2).collect::<Vec<_>>().join(" | "));
        0
    } else {
        if slow {
            println!("[{}] fuzz stage: a unit exceeded the 60 s timeout (slowness is not a violation)", prop);
        }
        println!("[{}] fuzz stage: {} executions of {}, {} coverage edges, no crash, {:.0}s", prop, execs, target, cov, start.elapsed().as_secs_f64());
        0
    };
    // append the fuzz statistics to the evidence file written by the worker
    let evp = root.join("evidence").join(format!("{}.json", prop));
    if let Some(mut ev) = std::fs::read_to_string(&evp).ok().and_then(|t| serde_json::from_str::<Value>(&t).ok()) {
        ev["coverage"]["libfuzzer_supplement"] = ev_note;
        if code == 1 {
            ev["violations"] = json!(ev["violations"].as_i64().unwrap_or(0) + 1);
        }
        let _ = std::fs::write(&evp, serde_json::to_string_pretty(&ev).unwrap() + "\n");
    }
    code
}

fn replay_dies(prop: &str, path: &std::path::Path) -> bool {
    Command::new(std::env::current_exe().unwrap())
        .args([prop, "--replay", path.to_str().unwrap()])
        .env("DSV_WORKER", "1")
        .stdout(Stdio::null())
        .stderr(Stdio::null())
        .status()
        .map(|s| !matches!(s.code(), Some(0 | 1 | 2)))
        .unwrap_or(false)
}

fn confirm_failed(prop: &str, path: &std::path::Path) -> bool {
    Command::new(std::env::current_exe().unwrap())
        .args([prop, "--replay", path.to_str().unwrap()])
        .env("DSV_WORKER", "1")
        .stdout(Stdio::null())
        .stderr(Stdio::null())
        .status()
        .map(|s| s.code() == Some(1))
        .unwrap_or(false)
}

fn write_abort_evidence(prop: &str, mode: &str, out: &Value) {
    let ev = json!({
        "property_id": prop,
        "tier": if mode == "thorough" { "thorough" } else { "quick" },
        "seed": seed_from_env(),
        "level": "exploration",
        "coverage": {
            "evaluations": 1,
            "distinct_nontrivial": 0,
            "rule": "run ended by a crash of the worker process; only the crashing case is recorded",
            "samples": [out],
        },
        "wall_s": 0.0,
        "violations": 1,
    });
    let p = verif_root().join("evidence").join(format!("{}.json", prop));
    let _ = std::fs::write(p, serde_json::to_string_pretty(&ev).unwrap());
}
