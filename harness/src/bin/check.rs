//! CLI:  check <Cxx> <quick|thorough>   |   check <Cxx> --replay <file>
//! The parent process forks a worker (same binary) so that aborts, stack overflows and hangs of
//! the code under test are observed from outside.
use dsv::props;
use dsv::runner::*;
use serde_json::{json, Value};
use std::process::{Command, Stdio};
use std::time::{Duration, Instant};

fn usage() -> ! {
    eprintln!("usage: check <C01..C20> <quick|thorough> | check <Cxx> --replay <file>");
    std::process::exit(2);
}

fn seed_from_env() -> u64 {
    std::env::var("VERIF_SEED").ok().and_then(|s| s.trim().parse::<i128>().ok()).map(|x| x as u64).unwrap_or(20260926)
}

fn worker(prop: &'static str, mode: &str, arg: Option<&str>) -> i32 {
    install_panic_hook();
    let seed = seed_from_env();
    if mode == "--replay" {
        let path = arg.unwrap_or_else(|| usage());
        let doc: Value = match std::fs::read_to_string(path).ok().and_then(|t| serde_json::from_str(&t).ok()) {
            Some(d) => d,
            None => {
                eprintln!("cannot read replay file {}", path);
                return 2;
            }
        };
        let sub = doc.get("subcheck").and_then(|s| s.as_str()).unwrap_or("").to_string();
        let case = doc.get("case").cloned().unwrap_or(Value::Null);
        let mut ctx = Ctx::new(prop, Tier::Quick, seed);
        ctx.strict = true;
        return match props::replay(&mut ctx, &sub, &case) {
            Some(Ok(())) => {
                println!("REPLAY-OK property={} subcheck={}", prop, sub);
                0
            }
            Some(Err(msg)) => {
                println!("replayed failure: {}", msg);
                println!("VIOLATION property={} replay={}", prop, path);
                1
            }
            None => {
                eprintln!("replay file does not name a decodable case of {}", prop);
                2
            }
        };
    }
    let tier = match mode {
        "quick" => Tier::Quick,
        "thorough" => Tier::Thorough,
        _ => usage(),
    };
    let mut ctx = Ctx::new(prop, tier, seed);
    let case_budget = std::env::var("DSV_CASE_BUDGET_S").ok().and_then(|s| s.parse().ok()).unwrap_or(if tier == Tier::Quick { 150 } else { 900 });
    start_case_watchdog(prop, case_budget);
    if !props::run(&mut ctx) {
        eprintln!("no check implemented for {}", prop);
        return 2;
    }
    ctx.finish()
}

fn main() {
    let args: Vec<String> = std::env::args().collect();
    if args.len() < 3 {
        usage();
    }
    let prop = props::static_id(&args[1]).unwrap_or_else(|| usage());
    let mode = args[2].as_str();
    if std::env::var("DSV_WORKER").is_ok() {
        std::process::exit(worker(prop, mode, args.get(3).map(|s| s.as_str())));
    }
    // parent
    let budget = match mode {
        "quick" => 1500,
        "thorough" => 6 * 3600,
        _ => 900,
    };
    let budget = std::env::var("DSV_BUDGET_S").ok().and_then(|s| s.parse().ok()).unwrap_or(budget);
    let start = Instant::now();
    let _ = std::fs::remove_file(Journal::path(prop));
    let mut child = Command::new(std::env::current_exe().unwrap())
        .args(&args[1..])
        .env("DSV_WORKER", "1")
        .stdin(Stdio::null())
        .spawn()
        .expect("cannot spawn worker");
    let status = loop {
        match child.try_wait() {
            Ok(Some(st)) => break Some(st),
            Ok(None) => {
                if start.elapsed() > Duration::from_secs(budget) {
                    let _ = child.kill();
                    let _ = child.wait();
                    break None;
                }
                std::thread::sleep(Duration::from_millis(20));
            }
            Err(_) => break None,
        }
    };
    let code = match status {
        None => {
            println!("INCONCLUSIVE property={} watchdog: run exceeded {} s (slowness is never reported as a violation)", prop, budget);
            2
        }
        Some(st) => match st.code() {
            Some(c @ (0 | 1 | 2)) => c,
            other => {
                // the worker died: abort / stack overflow / signal. Use the journal.
                let j = std::fs::read_to_string(Journal::path(prop)).unwrap_or_default();
                match serde_json::from_str::<Value>(j.trim()) {
                    Ok(doc) if mode != "--replay" => {
                        let dir = verif_root().join("replays");
                        let _ = std::fs::create_dir_all(&dir);
                        let path = dir.join(format!("{}-abort-{}.json", prop, std::process::id()));
                        let out = json!({
                            "property": prop,
                            "subcheck": doc.get("subcheck"),
                            "case": doc.get("case"),
                            "observed": format!("worker process died (status {:?}) while executing this case", other),
                        });
                        let _ = std::fs::write(&path, serde_json::to_string_pretty(&out).unwrap());
                        // confirm in a fresh worker
                        let confirm = Command::new(std::env::current_exe().unwrap())
                            .args([prop, "--replay", path.to_str().unwrap()])
                            .env("DSV_WORKER", "1")
                            .stdout(Stdio::null())
                            .stderr(Stdio::null())
                            .status();
                        let died_again = confirm.map(|s| !matches!(s.code(), Some(0 | 1 | 2))).unwrap_or(false);
                        let failed_again = confirm_failed(prop, &path);
                        if died_again || failed_again {
                            write_abort_evidence(prop, mode, &out);
                            println!("VIOLATION property={} replay={}", prop, path.display());
                            1
                        } else {
                            println!("INCONCLUSIVE property={} worker died (status {:?}) but the journaled case does not reproduce", prop, other);
                            2
                        }
                    }
                    _ => {
                        if mode == "--replay" {
                            // a replayed case that kills the process is a reproduced violation
                            println!("replayed failure: worker process died (status {:?})", other);
                            println!("VIOLATION property={} replay={}", prop, args.get(3).cloned().unwrap_or_default());
                            1
                        } else {
                            println!("INCONCLUSIVE property={} worker died (status {:?}) outside a journaled case", prop, other);
                            2
                        }
                    }
                }
            }
        },
    };
    std::process::exit(code);
}

fn confirm_failed(prop: &str, path: &std::path::Path) -> bool {
    Command::new(std::env::current_exe().unwrap())
        .args([prop, "--replay", path.to_str().unwrap()])
        .env("DSV_WORKER", "1")
        .stdout(Stdio::null())
        .stderr(Stdio::null())
        .status()
        .map(|s| s.code() == Some(1))
        .unwrap_or(false)
}

fn write_abort_evidence(prop: &str, mode: &str, out: &Value) {
    let ev = json!({
        "property_id": prop,
        "tier": if mode == "thorough" { "thorough" } else { "quick" },
        "seed": seed_from_env(),
        "level": "exploration",
        "coverage": {
            "evaluations": 1,
            "distinct_nontrivial": 0,
            "rule": "run ended by a crash of the worker process; only the crashing case is recorded",
            "samples": [out],
        },
        "wall_s": 0.0,
        "violations": 1,
    });
    let p = verif_root().join("evidence").join(format!("{}.json", prop));
    let _ = std::fs::write(p, serde_json::to_string_pretty(&ev).unwrap());
}
