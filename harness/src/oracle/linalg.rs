//! O-LINALG — Gaussian elimination over an abstract field (Q as BigRational, Z/p in i128)
use num_bigint::BigInt;
use num_rational::BigRational;
use num_traits::{One, Zero};
use std::fmt::Debug;

pub trait Field: Sync {
    type E: Clone + PartialEq + Debug;
    fn from_i64(&self, x: i64) -> Self::E;
    fn add(&self, a: &Self::E, b: &Self::E) -> Self::E;
    fn sub(&self, a: &Self::E, b: &Self::E) -> Self::E;
    fn mul(&self, a: &Self::E, b: &Self::E) -> Self::E;
    fn inv(&self, a: &Self::E) -> Self::E;
    fn is_zero(&self, a: &Self::E) -> bool;
    fn zero(&self) -> Self::E {
        self.from_i64(0)
    }
    fn one(&self) -> Self::E {
        self.from_i64(1)
    }
}

pub struct Q;
impl Field for Q {
    type E = BigRational;
    fn from_i64(&self, x: i64) -> BigRational {
        BigRational::from_integer(BigInt::from(x))
    }
    fn add(&self, a: &BigRational, b: &BigRational) -> BigRational {
        a + b
    }
    fn sub(&self, a: &BigRational, b: &BigRational) -> BigRational {
        a - b
    }
    fn mul(&self, a: &BigRational, b: &BigRational) -> BigRational {
        a * b
    }
    fn inv(&self, a: &BigRational) -> BigRational {
        BigRational::one() / a
    }
    fn is_zero(&self, a: &BigRational) -> bool {
        a.is_zero()
    }
}

/// Z/p with p < 2^62, elements kept in [0, p)
pub struct Fp(pub i64);
impl Field for Fp {
    type E = i64;
    fn from_i64(&self, x: i64) -> i64 {
        (x as i128).rem_euclid(self.0 as i128) as i64
    }
    fn add(&self, a: &i64, b: &i64) -> i64 {
        ((*a as i128 + *b as i128) % self.0 as i128) as i64
    }
    fn sub(&self, a: &i64, b: &i64) -> i64 {
        ((*a as i128 - *b as i128).rem_euclid(self.0 as i128)) as i64
    }
    fn mul(&self, a: &i64, b: &i64) -> i64 {
        ((*a as i128 * *b as i128) % self.0 as i128) as i64
    }
    fn inv(&self, a: &i64) -> i64 {
        // Fermat: a^(p-2)
        let p = self.0 as i128;
        let mut base = *a as i128 % p;
        let mut e = p - 2;
        let mut r = 1i128;
        while e > 0 {
            if e & 1 == 1 {
                r = r * base % p;
            }
            base = base * base % p;
            e >>= 1;
        }
        r as i64
    }
    fn is_zero(&self, a: &i64) -> bool {
        *a == 0
    }
}

pub type M<E> = Vec<Vec<E>>;

pub fn lift<F: Field>(f: &F, rows: usize, cols: usize, a: &[i64]) -> M<F::E> {
    (0..rows).map(|i| (0..cols).map(|j| f.from_i64(a[i * cols + j])).collect()).collect()
}

pub fn matmul<F: Field>(f: &F, a: &M<F::E>, b: &M<F::E>) -> M<F::E> {
    let n = a.len();
    let k = if b.is_empty() { 0 } else { b[0].len() };
    let inner = b.len();
    let mut out = vec![vec![f.zero(); k]; n];
    for i in 0..n {
        for j in 0..k {
            let mut s = f.zero();
            for t in 0..inner {
                s = f.add(&s, &f.mul(&a[i][t], &b[t][j]));
            }
            out[i][j] = s;
        }
    }
    out
}

pub struct Echelon<E> {
    pub rank: usize,
    pub pivots: Vec<usize>,
    pub reduced: M<E>,
    /// determinant of the leading square part bookkeeping: product of pivots with sign (only meaningful for square input)
    pub det: E,
}

/// reduced row echelon form with determinant bookkeeping
pub fn rref<F: Field>(f: &F, a: &M<F::E>) -> Echelon<F::E> {
    let rows = a.len();
    let cols = if rows > 0 { a[0].len() } else { 0 };
    let mut m = a.clone();
    let mut r = 0;
    let mut pivots = vec![];
    let mut det = f.one();
    for c in 0..cols {
        if r == rows {
            break;
        }
        let p = (r..rows).find(|&i| !f.is_zero(&m[i][c]));
        let p = match p {
            None => continue,
            Some(p) => p,
        };
        if p != r {
            m.swap(p, r);
            det = f.sub(&f.zero(), &det);
        }
        det = f.mul(&det, &m[r][c]);
        let inv = f.inv(&m[r][c]);
        for j in 0..cols {
            m[r][j] = f.mul(&m[r][j], &inv);
        }
        for i in 0..rows {
            if i != r && !f.is_zero(&m[i][c]) {
                let fac = m[i][c].clone();
                for j in 0..cols {
                    let x = f.mul(&fac, &m[r][j]);
                    m[i][j] = f.sub(&m[i][j], &x);
                }
            }
        }
        pivots.push(c);
        r += 1;
    }
    if rows != cols || r < rows {
        det = f.zero();
    }
    Echelon { rank: r, pivots, reduced: m, det }
}

pub fn rank<F: Field>(f: &F, a: &M<F::E>) -> usize {
    rref(f, a).rank
}

/// is A X = B solvable?  (rank [A|B] == rank A)
pub fn consistent<F: Field>(f: &F, a: &M<F::E>, b: &M<F::E>) -> bool {
    let aug: M<F::E> = a.iter().zip(b.iter()).map(|(r, s)| r.iter().chain(s.iter()).cloned().collect()).collect();
    rank(f, &aug) == rank(f, a)
}

/// exact determinant of an integer matrix (Bareiss over BigInt), independent of rref
pub fn det_bareiss(n: usize, a: &[i64]) -> BigInt {
    if n == 0 {
        return BigInt::one();
    }
    let mut m: Vec<Vec<BigInt>> = (0..n).map(|i| (0..n).map(|j| BigInt::from(a[i * n + j])).collect()).collect();
    let mut sign = 1;
    let mut prev = BigInt::one();
    for k in 0..n - 1 {
        if m[k][k].is_zero() {
            match ((k + 1)..n).find(|&i| !m[i][k].is_zero()) {
                None => return BigInt::zero(),
                Some(i) => {
                    m.swap(i, k);
                    sign = -sign;
                }
            }
        }
        for i in (k + 1)..n {
            for j in (k + 1)..n {
                let x = &m[i][j] * &m[k][k] - &m[i][k] * &m[k][j];
                m[i][j] = x / &prev;
            }
        }
        prev = m[k][k].clone();
    }
    let d = m[n - 1][n - 1].clone();
    if sign < 0 {
        -d
    } else {
        d
    }
}

/// exact rational solution of a non-singular square integer system
pub fn solve_exact(n: usize, k: usize, a: &[i64], b: &[i64]) -> Option<M<BigRational>> {
    let f = Q;
    let am = lift(&f, n, n, a);
    let bm = lift(&f, n, k, b);
    let aug: M<BigRational> = am.iter().zip(bm.iter()).map(|(r, s)| r.iter().chain(s.iter()).cloned().collect()).collect();
    let e = rref(&f, &aug);
    if e.pivots.len() < n || e.pivots.iter().take(n).enumerate().any(|(i, &p)| p != i) {
        return None;
    }
    Some((0..n).map(|i| (0..k).map(|j| e.reduced[i][n + j].clone()).collect()).collect())
}
