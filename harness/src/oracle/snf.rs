//! O-SNF — Smith normal form two ways: BigInt elimination and determinantal divisors
use num_bigint::BigInt;
use num_integer::Integer;
use num_traits::{One, Signed, Zero};

pub type Mat = Vec<Vec<BigInt>>;

pub fn to_big(m: &[Vec<i64>]) -> Mat {
    m.iter().map(|r| r.iter().map(|&x| BigInt::from(x)).collect()).collect()
}

/// Invariant factors d1 | d2 | ... | dr (all > 0), r = rank, by row/column gcd elimination
/// (smallest-entry pivoting, balanced remainders). Panics if the entries explode; use
/// `try_smith_diagonal` where that can happen.
pub fn smith_diagonal(m: &Mat) -> Vec<BigInt> {
    try_smith_diagonal(m, u64::MAX).expect("unbounded")
}

/// nearest-integer quotient (balanced remainder)
fn div_round(a: &BigInt, b: &BigInt) -> BigInt {
    let two = BigInt::from(2);
    let (q, r) = a.div_mod_floor(b);
    // r has the sign of b and |r| < |b|
    if (&r * &two).abs() > b.abs() {
        q + 1
    } else {
        q
    }
}

/// As `smith_diagonal`, but gives up (None) when an entry grows beyond `max_bits` bits.
pub fn try_smith_diagonal(m: &Mat, max_bits: u64) -> Option<Vec<BigInt>> {
    let mut a: Mat = m.clone();
    let rows = a.len();
    let cols = if rows > 0 { a[0].len() } else { 0 };
    let mut diag = vec![];
    let mut t = 0;
    while t < rows.min(cols) {
        // smallest non-zero entry of the remaining block becomes the pivot
        let mut best: Option<(usize, usize)> = None;
        for i in t..rows {
            for j in t..cols {
                if !a[i][j].is_zero() {
                    if a[i][j].bits() > max_bits {
                        return None;
                    }
                    if best.map_or(true, |(bi, bj)| a[i][j].abs() < a[bi][bj].abs()) {
                        best = Some((i, j));
                    }
                }
            }
        }
        let (pi, pj) = match best {
            None => break,
            Some(p) => p,
        };
        a.swap(t, pi);
        for r in a.iter_mut() {
            r.swap(t, pj);
        }
        // reduce column t and row t modulo the pivot
        let mut clean = true;
        for i in (t + 1)..rows {
            if !a[i][t].is_zero() {
                let q = div_round(&a[i][t], &a[t][t]);
                if !q.is_zero() {
                    for j in t..cols {
                        let x = &a[t][j] * &q;
                        a[i][j] -= x;
                    }
                }
                if !a[i][t].is_zero() {
                    clean = false;
                }
            }
        }
        for j in (t + 1)..cols {
            if !a[t][j].is_zero() {
                let q = div_round(&a[t][j], &a[t][t]);
                if !q.is_zero() {
                    for i in t..rows {
                        let x = &a[i][t] * &q;
                        a[i][j] -= x;
                    }
                }
                if !a[t][j].is_zero() {
                    clean = false;
                }
            }
        }
        if !clean {
            // a smaller non-zero entry now exists in row/column t: pick again
            continue;
        }
        // row and column are clear; the pivot must divide the rest of the block
        let mut bad = None;
        'outer: for i in (t + 1)..rows {
            for j in (t + 1)..cols {
                if !(&a[i][j] % &a[t][t]).is_zero() {
                    bad = Some(i);
                    break 'outer;
                }
            }
        }
        if let Some(i) = bad {
            for j in t..cols {
                let x = a[i][j].clone();
                a[t][j] += x;
            }
            continue;
        }
        diag.push(a[t][t].abs());
        t += 1;
    }
    Some(diag)
}

fn det_i128(m: &[Vec<i128>]) -> i128 {
    let n = m.len();
    if n == 0 {
        return 1;
    }
    if n == 1 {
        return m[0][0];
    }
    let mut d = 0i128;
    for j in 0..n {
        if m[0][j] == 0 {
            continue;
        }
        let minor: Vec<Vec<i128>> = m[1..].iter().map(|r| r.iter().enumerate().filter(|(k, _)| *k != j).map(|(_, &x)| x).collect()).collect();
        let s = if j % 2 == 0 { 1 } else { -1 };
        d += s * m[0][j] * det_i128(&minor);
    }
    d
}

fn subsets(n: usize, k: usize) -> Vec<Vec<usize>> {
    let mut out = vec![];
    fn rec(n: usize, k: usize, start: usize, cur: &mut Vec<usize>, out: &mut Vec<Vec<usize>>) {
        if cur.len() == k {
            out.push(cur.clone());
            return;
        }
        for i in start..n {
            cur.push(i);
            rec(n, k, i + 1, cur, out);
            cur.pop();
        }
    }
    rec(n, k, 0, &mut vec![], &mut out);
    out
}

/// Invariant factors via determinantal divisors (gcd of all k x k minors); for matrices up to 6x6
/// with entries small enough for i128 cofactor expansion.
pub fn smith_by_minors(m: &[Vec<i64>]) -> Vec<BigInt> {
    let rows = m.len();
    let cols = if rows > 0 { m[0].len() } else { 0 };
    let mm: Vec<Vec<i128>> = m.iter().map(|r| r.iter().map(|&x| x as i128).collect()).collect();
    let mut prev = 1i128;
    let mut out = vec![];
    for k in 1..=rows.min(cols) {
        let mut g = 0i128;
        for rs in subsets(rows, k) {
            for cs in subsets(cols, k) {
                let sub: Vec<Vec<i128>> = rs.iter().map(|&r| cs.iter().map(|&c| mm[r][c]).collect()).collect();
                g = g.gcd(&det_i128(&sub));
            }
        }
        if g == 0 {
            break;
        }
        out.push(BigInt::from(g / prev));
        prev = g;
    }
    out
}

/// The list the crate documents: invariant factors != 1 plus one 0 per free generator, ascending.
pub fn abelian_invariants_from_diag(nr_gens: usize, diag: &[BigInt]) -> Vec<BigInt> {
    let mut v: Vec<BigInt> = diag.iter().filter(|d| !d.is_one()).cloned().collect();
    for _ in 0..(nr_gens - diag.len()) {
        v.push(BigInt::zero());
    }
    v.sort();
    v
}

/// exponent-sum matrix of relators (letters +-g, 1-based)
pub fn exponent_matrix(nr_gens: usize, rels: &[Vec<i64>]) -> Vec<Vec<i64>> {
    rels.iter()
        .map(|w| {
            let mut row = vec![0i64; nr_gens];
            for &l in w {
                if l > 0 {
                    row[(l - 1) as usize] += 1;
                } else if l < 0 {
                    row[(-l - 1) as usize] -= 1;
                }
            }
            row
        })
        .collect()
}

/// abelianisation of <g_1..g_n | rels> as the crate-format list (ascending, zeros for free rank)
pub fn abelianization(nr_gens: usize, rels: &[Vec<i64>]) -> Vec<BigInt> {
    try_abelianization(nr_gens, rels, u64::MAX).expect("unbounded")
}

/// None when the elimination's entries exceed `max_bits` bits (the caller discards the case)
pub fn try_abelianization(nr_gens: usize, rels: &[Vec<i64>], max_bits: u64) -> Option<Vec<BigInt>> {
    let m = exponent_matrix(nr_gens, rels);
    let d = if m.is_empty() || nr_gens == 0 { vec![] } else { try_smith_diagonal(&to_big(&m), max_bits)? };
    Some(abelian_invariants_from_diag(nr_gens, &d))
}

/// Same result as `try_abelianization`, for large presentations: generators that occur with
/// exponent sum +-1 in some relation are eliminated first (exact i64 row operations, abandoned on
/// overflow), which leaves the cokernel unchanged; the Smith form is computed on what remains.
pub fn try_abelianization_fast(nr_gens: usize, rels: &[Vec<i64>], max_bits: u64) -> Option<Vec<BigInt>> {
    let mut m = exponent_matrix(nr_gens, rels);
    m.retain(|r| r.iter().any(|&x| x != 0));
    let mut alive: Vec<bool> = vec![true; nr_gens];
    let mut n_alive = nr_gens;
    'outer: loop {
        // a unit entry in the sparsest row that has one
        let mut best: Option<(usize, usize, usize)> = None;
        for (ri, row) in m.iter().enumerate() {
            if let Some(c) = (0..nr_gens).find(|&c| alive[c] && (row[c] == 1 || row[c] == -1)) {
                let w = row.iter().filter(|&&x| x != 0).count();
                if best.map_or(true, |b| w < b.2) {
                    best = Some((ri, c, w));
                }
            }
        }
        let (ri, c, _) = match best {
            None => break,
            Some(b) => b,
        };
        let prow = m[ri].clone();
        let sign = prow[c];
        let mut next = Vec::with_capacity(m.len());
        for (k, row) in m.iter().enumerate() {
            if k == ri {
                continue;
            }
            let f = row[c] * sign;
            if f == 0 {
                next.push(row.clone());
                continue;
            }
            let mut out = row.clone();
            for j in 0..nr_gens {
                match prow[j].checked_mul(f).and_then(|p| out[j].checked_sub(p)) {
                    Some(v) => out[j] = v,
                    None => break 'outer, // overflow: leave the rest to the BigInt route (m untouched)
                }
            }
            if out.iter().any(|&x| x != 0) {
                next.push(out);
            }
        }
        m = next;
        alive[c] = false;
        n_alive -= 1;
    }
    let cols: Vec<usize> = (0..nr_gens).filter(|&c| alive[c]).collect();
    let reduced: Vec<Vec<i64>> = m.iter().map(|r| cols.iter().map(|&c| r[c]).collect()).collect();
    let d = if reduced.is_empty() || n_alive == 0 { vec![] } else { try_smith_diagonal(&to_big(&reduced), max_bits)? };
    Some(abelian_invariants_from_diag(n_alive, &d))
}
