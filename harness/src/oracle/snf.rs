//! O-SNF — Smith normal form two ways: BigInt elimination and determinantal divisors
use num_bigint::BigInt;
use num_integer::Integer;
use num_traits::{One, Signed, Zero};

pub type Mat = Vec<Vec<BigInt>>;

pub fn to_big(m: &[Vec<i64>]) -> Mat {
    m.iter().map(|r| r.iter().map(|&x| BigInt::from(x)).collect()).collect()
}

/// Invariant factors d1 | d2 | ... | dr (all > 0), r = rank, by row/column gcd elimination
/// (smallest-entry pivoting, balanced remainders). Panics if the entries explode; use
/// `try_smith_diagonal` where that can happen.
pub fn smith_diagonal(m: &Mat) -> Vec<BigInt> {
    try_smith_diagonal(m, u64::MAX).expect("unbounded")
}

/// nearest-integer quotient (balanced remainder)
fn div_round(a: &BigInt, b: &BigInt) -> BigInt {
    let two = BigInt::from(2);
    let (q, r) = a.div_mod_floor(b);
    // r has the sign of b and |r| < |b|
    if (&r * &two).abs() > b.abs() {
        q + 1
    } else {
        q
    }
}

/// As `smith_diagonal`, but gives up (None) when an entry grows beyond `max_bits` bits.
pub fn try_smith_diagonal(m: &Mat, max_bits: u64) -> Option<Vec<BigInt>> {
    let mut a: Mat = m.clone();
    let rows = a.len();
    let cols = if rows > 0 { a[0].len() } else { 0 };
    let mut diag = vec![];
    let mut t = 0;
    while t < rows.min(cols) {
        // smallest non-zero entry of the remaining block becomes the pivot
        let mut best: Option<(usize, usize)> = None;
        for i in t..rows {
            for j in t..cols {
                if !a[i][j].is_zero() {
                    if a[i][j].bits() > max_bits {
                        return None;
                    }
                    if best.map_or(true, |(bi, bj)| a[i][j].abs() < a[bi][bj].abs()) {
                        best = Some((i, j));
                    }
                }
            }
        }
        let (pi, pj) = match best {
            None => break,
            Some(p) => p,
        };
        a.swap(t, pi);
        for r in a.iter_mut() {
            r.swap(t, pj);
        }
        // reduce column t and row t modulo the pivot
        let mut clean = true;
        for i in (t + 1)..rows {
            if !a[i][t].is_zero() {
                let q = div_round(&a[i][t], &a[t][t]);
                if !q.is_zero() {
                    for j in t..cols {
                        let x = &a[t][j] * &q;
                        a[i][j] -= x;
                    }
                }
                if !a[i][t].is_zero() {
                    clean = false;
                }
            }
        }
        for j in (t + 1)..cols {
            if !a[t][j].is_zero() {
                let q = div_round(&a[t][j], &a[t][t]);
                if !q.is_zero() {
                    for i in t..rows {
                        let x = &a[i][t] * &q;
                        a[i][j] -= x;
                    }
                }
                if !a[t][j].is_zero() {
                    clean = false;
                }
            }
        }
        if !clean {
            // a smaller non-zero entry now exists in row/column t: pick again
            continue;
        }
        // row and column are clear; the pivot must divide the rest of the block
        let mut bad = None;
        'outer: for i in (t + 1)..rows {
            for j in (t + 1)..cols {
                if !(&a[i][j] % &a[t][t]).is_zero() {
                    bad = Some(i);
                    break 'outer;
                }
            }
        }
        if let Some(i) = bad {
            for j in t..cols {
                let x = a[i][j].clone();
                a[t][j] += x;
            }
            continue;
        }
        diag.push(a[t][t].abs());
        t += 1;
    }
    Some(diag)
}

fn det_i128(m: &[Vec<i128>]) -> i128 {
    let n = m.len();
    if n == 0 {
        return 1;
    }
    if n == 1 {
        return m[0][0];
    }
    let mut d = 0i128;
    for j in 0..n {
        if m[0][j] == 0 {
            continue;
        }
        let minor: Vec<Vec<i128>> = m[1..].iter().map(|r| r.iter().enumerate().filter(|(k, _)| *k != j).map(|(_, &x)| x).collect()).collect();
        let s = if j % 2 == 0 { 1 } else { -1 };
        d += s * m[0][j] * det_i128(&minor);
    }
    d
}

fn subsets(n: usize, k: usize) -> Vec<Vec<usize>> {
    let mut out = vec![];
    fn rec(n: usize, k: usize, start: usize, cur: &mut Vec<usize>, out: &mut Vec<Vec<usize>>) {
        if cur.len() == k {
            out.push(cur.clone());
            return;
        }
        for i in start..n {
            cur.push(i);
            rec(n, k, i + 1, cur, out);
            cur.pop();
        }
    }
    rec(n, k, 0, &mut vec![], &mut out);
    out
}

/// Invariant factors via determinantal divisors (gcd of all k x k minors); for matrices up to 6x6
/// with entries small enough for i128 cofactor expansion.
pub fn smith_by_minors(m: &[Vec<i64>]) -> Vec<BigInt> {
    let rows = m.len();
    let cols = if rows > 0 { m[0].len() } else { 0 };
    let mm: Vec<Vec<i128>> = m.iter().map(|r| r.iter().map(|&x| x as i128).collect()).collect();
    let mut prev = 1i128;
    let mut out = vec![];
    for k in 1..=rows.min(cols) {
        let mut g = 0i128;
        for rs in subsets(rows, k) {
            for cs in subsets(cols, k) {
                let sub: Vec<Vec<i128>> = rs.iter().map(|&r| cs.iter().map(|&c| mm[r][c]).collect()).collect();
                g = g.gcd(&det_i128(&sub));
            }
        }
        if g == 0 {
            break;
        }
        out.push(BigInt::from(g / prev));
        prev = g;
    }
    out
}

/// The list the crate documents: invariant factors != 1 plus one 0 per free generator, ascending.
pub fn abelian_invariants_from_diag(nr_gens: usize, diag: &[BigInt]) -> Vec<BigInt> {
    let mut v: Vec<BigInt> = diag.iter().filter(|d| !d.is_one()).cloned().collect();
    for _ in 0..(nr_gens - diag.len()) {
        v.push(BigInt::zero());
    }
    v.sort();
    v
}

/// exponent-sum matrix of relators (letters +-g, 1-based)
pub fn exponent_matrix(nr_gens: usize, rels: &[Vec<i64>]) -> Vec<Vec<i64>> {
    rels.iter()
        .map(|w| {
            let mut row = vec![0i64; nr_gens];
            for &l in w {
                if l > 0 {
                    row[(l - 1) as usize] += 1;
                } else if l < 0 {
                    row[(-l - 1) as usize] -= 1;
                }
            }
            row
        })
        .collect()
}

/// abelianisation of <g_1..g_n | rels> as the crate-format list (ascending, zeros for free rank)
pub fn abelianization(nr_gens: usize, rels: &[Vec<i64>]) -> Vec<BigInt> {
    try_abelianization(nr_gens, rels, u64::MAX).expect("unbounded")
}

/// None when the elimination's entries exceed `max_bits` bits (the caller discards the case)
pub fn try_abelianization(nr_gens: usize, rels: &[Vec<i64>], max_bits: u64) -> Option<Vec<BigInt>> {
    let m = exponent_matrix(nr_gens, rels);
    let d = if m.is_empty() || nr_gens == 0 { vec![] } else { try_smith_diagonal(&to_big(&m), max_bits)? };
    Some(abelian_invariants_from_diag(nr_gens, &d))
}

/// Same result as `try_abelianization`, for large presentations: generators that occur with
/// exponent sum +-1 in some relation are eliminated first (exact sparse i64 row operations,
/// abandoned on overflow), which leaves the cokernel unchanged; the Smith form is computed on what
/// remains.
pub fn try_abelianization_fast(nr_gens: usize, rels: &[Vec<i64>], max_bits: u64) -> Option<Vec<BigInt>> {
    // sparse rows: (column, value) sorted by column
    let mut rows: Vec<Vec<(usize, i64)>> = exponent_matrix(nr_gens, rels)
        .into_iter()
        .map(|r| r.into_iter().enumerate().filter(|&(_, x)| x != 0).collect::<Vec<_>>())
        .filter(|r: &Vec<(usize, i64)>| !r.is_empty())
        .collect();
    let mut alive: Vec<bool> = vec![true; nr_gens];
    let mut n_alive = nr_gens;
    'outer: loop {
        // the sparsest row that has a unit entry
        let mut best: Option<(usize, usize, i64)> = None;
        let mut best_w = usize::MAX;
        for (ri, row) in rows.iter().enumerate() {
            if row.len() < best_w {
                if let Some(&(c, x)) = row.iter().find(|&&(_, x)| x == 1 || x == -1) {
                    best = Some((ri, c, x));
                    best_w = row.len();
                    if best_w == 1 {
                        break;
                    }
                }
            }
        }
        let (ri, c, sign) = match best {
            None => break,
            Some(b) => b,
        };
        let prow = rows.swap_remove(ri);
        let mut changed: Vec<(usize, Vec<(usize, i64)>)> = vec![];
        for (k, row) in rows.iter().enumerate() {
            let f = match row.binary_search_by_key(&c, |&(col, _)| col) {
                Ok(pos) => row[pos].1 * sign,
                Err(_) => continue,
            };
            // row - f * prow, merged by column
            let mut out: Vec<(usize, i64)> = Vec::with_capacity(row.len() + prow.len());
            let (mut a, mut b) = (0, 0);
            while a < row.len() || b < prow.len() {
                let ca = row.get(a).map_or(usize::MAX, |e| e.0);
                let cb = prow.get(b).map_or(usize::MAX, |e| e.0);
                let (col, val) = if ca < cb {
                    a += 1;
                    (ca, Some(row[a - 1].1))
                } else if cb < ca {
                    b += 1;
                    (cb, prow[b - 1].1.checked_mul(f).and_then(|p| 0i64.checked_sub(p)))
                } else {
                    a += 1;
                    b += 1;
                    (ca, prow[b - 1].1.checked_mul(f).and_then(|p| row[a - 1].1.checked_sub(p)))
                };
                match val {
                    None => {
                        // overflow: undo nothing (rows untouched so far), put the pivot row back, stop eliminating
                        rows.push(prow);
                        break 'outer;
                    }
                    Some(0) => {}
                    Some(v) => out.push((col, v)),
                }
            }
            changed.push((k, out));
        }
        for (k, out) in changed {
            rows[k] = out;
        }
        rows.retain(|r| !r.is_empty());
        alive[c] = false;
        n_alive -= 1;
    }
    let cols: Vec<usize> = (0..nr_gens).filter(|&c| alive[c]).collect();
    let mut pos = vec![usize::MAX; nr_gens];
    for (k, &c) in cols.iter().enumerate() {
        pos[c] = k;
    }
    let reduced: Vec<Vec<i64>> = rows
        .iter()
        .map(|r| {
            let mut out = vec![0i64; cols.len()];
            for &(c, v) in r {
                out[pos[c]] = v;
            }
            out
        })
        .collect();
    let d = if reduced.is_empty() || n_alive == 0 { vec![] } else { try_smith_diagonal(&to_big(&reduced), max_bits)? };
    Some(abelian_invariants_from_diag(n_alive, &d))
}
