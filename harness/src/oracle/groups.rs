//! O-TC (reference Todd-Coxeter), O-PERM (transitive permutation representations up to
//! equivalence, all homomorphisms into S_k by brute force), O-RS (textbook Reidemeister-Schreier),
//! and plain-data coset tables. Words are Vec<i64> with letters +-1..+-n.
use std::collections::{BTreeMap, BTreeSet, VecDeque};

pub type Word = Vec<i64>;

pub fn inv_word(w: &[i64]) -> Word {
    w.iter().rev().map(|x| -x).collect()
}

pub fn free_reduce(w: &[i64]) -> Word {
    let mut st: Word = vec![];
    for &x in w {
        if x == 0 {
            continue;
        }
        if st.last() == Some(&-x) {
            st.pop();
        } else {
            st.push(x);
        }
    }
    st
}

pub fn cyclic_reduce(w: &[i64]) -> Word {
    let mut v = free_reduce(w);
    while v.len() >= 2 && v[0] == -v[v.len() - 1] {
        v.pop();
        v.remove(0);
    }
    v
}

/// representative of a word modulo conjugation, rotation and inversion (own convention)
pub fn relator_class(w: &[i64]) -> Word {
    let c = cyclic_reduce(w);
    if c.is_empty() {
        return c;
    }
    let mut best: Option<Word> = None;
    for s in [c.clone(), inv_word(&c)] {
        for k in 0..s.len() {
            let mut r = s[k..].to_vec();
            r.extend_from_slice(&s[..k]);
            if best.as_ref().map_or(true, |b| r < *b) {
                best = Some(r);
            }
        }
    }
    best.unwrap()
}

#[derive(Clone, Debug, PartialEq, Eq, Hash)]
pub struct Pres {
    pub nr_gens: usize,
    pub rels: Vec<Word>,
}

/// A complete coset table as plain data: rows[r][g-1] = image under generator g (1-based gens),
/// inverse images derived.
#[derive(Clone, Debug, PartialEq, Eq, Hash)]
pub struct Table {
    pub nr_gens: usize,
    pub fwd: Vec<Vec<usize>>,
    pub bwd: Vec<Vec<usize>>,
}

impl Table {
    pub fn len(&self) -> usize {
        self.fwd.len()
    }
    pub fn step(&self, row: usize, g: i64) -> usize {
        if g > 0 {
            self.fwd[row][(g - 1) as usize]
        } else {
            self.bwd[row][(-g - 1) as usize]
        }
    }
    pub fn trace(&self, row: usize, w: &[i64]) -> usize {
        w.iter().fold(row, |r, &g| self.step(r, g))
    }
    /// from forward images only; None unless every generator column is a permutation
    pub fn from_forward(nr_gens: usize, fwd: Vec<Vec<usize>>) -> Option<Table> {
        let n = fwd.len();
        let mut bwd = vec![vec![usize::MAX; nr_gens]; n];
        for r in 0..n {
            if fwd[r].len() != nr_gens {
                return None;
            }
            for g in 0..nr_gens {
                let t = fwd[r][g];
                if t >= n || bwd[t][g] != usize::MAX {
                    return None;
                }
                bwd[t][g] = r;
            }
        }
        Some(Table { nr_gens, fwd, bwd })
    }
    pub fn is_transitive(&self) -> bool {
        let n = self.len();
        if n == 0 {
            return false;
        }
        let mut seen = vec![false; n];
        let mut q = VecDeque::from([0usize]);
        seen[0] = true;
        let mut c = 1;
        while let Some(r) = q.pop_front() {
            for g in 0..self.nr_gens {
                for t in [self.fwd[r][g], self.bwd[r][g]] {
                    if !seen[t] {
                        seen[t] = true;
                        c += 1;
                        q.push_back(t);
                    }
                }
            }
        }
        c == n
    }
    pub fn relators_close(&self, rels: &[Word]) -> Option<(usize, usize)> {
        for (k, w) in rels.iter().enumerate() {
            for r in 0..self.len() {
                if self.trace(r, w) != r {
                    return Some((k, r));
                }
            }
        }
        None
    }
    /// BFS relabelling from `base`: a complete invariant of the transitive action with base point
    pub fn based_code(&self, base: usize) -> Vec<usize> {
        let n = self.len();
        let mut label = vec![usize::MAX; n];
        let mut order = vec![base];
        label[base] = 0;
        let mut code = Vec::with_capacity(n * self.nr_gens);
        let mut i = 0;
        while i < order.len() {
            let r = order[i];
            i += 1;
            for g in 0..self.nr_gens {
                for t in [self.fwd[r][g], self.bwd[r][g]] {
                    if label[t] == usize::MAX {
                        label[t] = order.len();
                        order.push(t);
                    }
                    code.push(label[t]);
                }
            }
        }
        code
    }
    /// canonical form of the action up to equivalence (conjugacy class of the point stabiliser)
    pub fn canonical_code(&self) -> Vec<usize> {
        let mut best: Option<Vec<usize>> = None;
        for b in 0..self.len() {
            let c = self.based_code(b);
            if best.as_ref().map_or(true, |x| c < *x) {
                best = Some(c);
            }
        }
        let mut out = vec![self.len()];
        out.extend(best.unwrap_or_default());
        out
    }
    /// own BFS spanning tree from base: word leading from base to each row
    pub fn transversal(&self, base: usize) -> Vec<Word> {
        let n = self.len();
        let mut w: Vec<Option<Word>> = vec![None; n];
        w[base] = Some(vec![]);
        let mut q = VecDeque::from([base]);
        while let Some(r) = q.pop_front() {
            for g in 1..=self.nr_gens as i64 {
                for h in [g, -g] {
                    let t = self.step(r, h);
                    if w[t].is_none() {
                        let mut u = w[r].clone().unwrap();
                        u.push(h);
                        w[t] = Some(u);
                        q.push_back(t);
                    }
                }
            }
        }
        w.into_iter().map(|x| x.unwrap_or_default()).collect()
    }
    /// order of the permutation group generated by the columns (closure by BFS over row tuples)
    pub fn perm_group_order(&self, limit: usize) -> Option<usize> {
        let n = self.len();
        let start: Vec<usize> = (0..n).collect();
        let mut seen: BTreeSet<Vec<usize>> = BTreeSet::from([start.clone()]);
        let mut q = VecDeque::from([start]);
        while let Some(p) = q.pop_front() {
            for g in 0..self.nr_gens {
                let np: Vec<usize> = p.iter().map(|&r| self.fwd[r][g]).collect();
                if seen.insert(np.clone()) {
                    if seen.len() > limit {
                        return None;
                    }
                    q.push_back(np);
                }
            }
        }
        Some(seen.len())
    }
}

// ---------------------------------------------------------------------------
// O-TC: HLT Todd-Coxeter with coincidence processing (after Holt, Handbook of CGT, ch. 5)

struct Tc {
    n: usize,
    /// table[row][col], col = 2*(g-1) for g, 2*(g-1)+1 for g^-1; usize::MAX = undefined
    t: Vec<Vec<usize>>,
    p: Vec<usize>,
    queue: Vec<usize>,
    limit: usize,
    overflow: bool,
}

fn col(g: i64) -> usize {
    if g > 0 {
        2 * (g as usize - 1)
    } else {
        2 * ((-g) as usize - 1) + 1
    }
}

impl Tc {
    fn rep(&mut self, mut k: usize) -> usize {
        let mut l = k;
        while self.p[l] != l {
            l = self.p[l];
        }
        while self.p[k] != k {
            let nx = self.p[k];
            self.p[k] = l;
            k = nx;
        }
        l
    }
    fn define(&mut self, a: usize, x: usize) {
        if self.t.len() >= self.limit {
            self.overflow = true;
            return;
        }
        let b = self.t.len();
        self.t.push(vec![usize::MAX; 2 * self.n]);
        self.p.push(b);
        self.t[a][x] = b;
        self.t[b][x ^ 1] = a;
    }
    fn merge(&mut self, k: usize, l: usize) {
        let (a, b) = (self.rep(k), self.rep(l));
        if a != b {
            let (lo, hi) = (a.min(b), a.max(b));
            self.p[hi] = lo;
            self.queue.push(hi);
        }
    }
    fn coincidence(&mut self, a: usize, b: usize) {
        self.merge(a, b);
        while let Some(g) = self.queue.pop() {
            for x in 0..2 * self.n {
                let d = self.t[g][x];
                if d != usize::MAX {
                    self.t[d][x ^ 1] = usize::MAX;
                    let m = self.rep(g);
                    let v = self.rep(d);
                    if self.t[m][x] != usize::MAX {
                        let e = self.t[m][x];
                        self.merge(v, e);
                    } else if self.t[v][x ^ 1] != usize::MAX {
                        let e = self.t[v][x ^ 1];
                        self.merge(m, e);
                    } else {
                        self.t[m][x] = v;
                        self.t[v][x ^ 1] = m;
                    }
                }
            }
        }
    }
    fn scan_and_fill(&mut self, a: usize, w: &[i64]) {
        if w.is_empty() {
            return;
        }
        let r = w.len();
        let (mut f, mut i) = (a, 0usize);
        let (mut b, mut j) = (a, r);
        loop {
            while i < j && self.t[f][col(w[i])] != usize::MAX {
                f = self.t[f][col(w[i])];
                i += 1;
            }
            if i >= j {
                if f != b {
                    self.coincidence(f, b);
                }
                return;
            }
            while j > i && self.t[b][col(-w[j - 1])] != usize::MAX {
                b = self.t[b][col(-w[j - 1])];
                j -= 1;
            }
            if j <= i {
                self.coincidence(f, b);
                return;
            } else if j == i + 1 {
                self.t[f][col(w[i])] = b;
                self.t[b][col(-w[i])] = f;
                return;
            } else {
                self.define(f, col(w[i]));
                if self.overflow {
                    return;
                }
            }
        }
    }
}

/// Coset table of H = <sub> in G = <gens | rels>; row 0 is the coset H. None if more than
/// `limit` rows are needed at some point.
pub fn todd_coxeter(nr_gens: usize, rels: &[Word], sub: &[Word], limit: usize) -> Option<Table> {
    let rels: Vec<Word> = rels.iter().map(|w| free_reduce(w)).filter(|w| !w.is_empty()).collect();
    let sub: Vec<Word> = sub.iter().map(|w| free_reduce(w)).filter(|w| !w.is_empty()).collect();
    let mut tc = Tc { n: nr_gens, t: vec![vec![usize::MAX; 2 * nr_gens]], p: vec![0], queue: vec![], limit, overflow: false };
    for w in &sub {
        tc.scan_and_fill(0, w);
        if tc.overflow {
            return None;
        }
    }
    let mut a = 0;
    while a < tc.t.len() {
        if tc.p[a] == a {
            for w in &rels {
                if tc.p[a] != a {
                    break;
                }
                tc.scan_and_fill(a, w);
                if tc.overflow {
                    return None;
                }
            }
            if tc.p[a] == a {
                for x in 0..2 * nr_gens {
                    if tc.t[a][x] == usize::MAX {
                        tc.define(a, x);
                        if tc.overflow {
                            return None;
                        }
                    }
                }
            }
        }
        a += 1;
    }
    // compress
    let live: Vec<usize> = (0..tc.t.len()).filter(|&k| tc.p[k] == k).collect();
    let mut newidx = BTreeMap::new();
    for (k, &r) in live.iter().enumerate() {
        newidx.insert(r, k);
    }
    let mut fwd = vec![];
    for &r in &live {
        let mut row = vec![];
        for g in 0..nr_gens {
            let t = tc.t[r][2 * g];
            if t == usize::MAX {
                return None;
            }
            let t = tc.rep(t);
            row.push(*newidx.get(&t)?);
        }
        fwd.push(row);
    }
    Table::from_forward(nr_gens, fwd)
}

// ---------------------------------------------------------------------------
// O-PERM: all transitive homomorphisms into S_k up to equivalence, by brute force

fn perms_of(k: usize) -> Vec<Vec<usize>> {
    crate::gen::covers::all_perms(k)
}

/// one permutation per cycle type of S_k
fn cycle_type_reps(k: usize) -> Vec<Vec<usize>> {
    fn parts(n: usize, max: usize, cur: &mut Vec<usize>, out: &mut Vec<Vec<usize>>) {
        if n == 0 {
            out.push(cur.clone());
            return;
        }
        for p in (1..=n.min(max)).rev() {
            cur.push(p);
            parts(n - p, p, cur, out);
            cur.pop();
        }
    }
    let mut ps = vec![];
    parts(k, k, &mut vec![], &mut ps);
    ps.into_iter()
        .map(|p| {
            let mut perm = vec![0; k];
            let mut at = 0;
            for len in p {
                for j in 0..len {
                    perm[at + j] = at + (j + 1) % len;
                }
                at += len;
            }
            perm
        })
        .collect()
}

fn perm_inverse(p: &[usize]) -> Vec<usize> {
    let mut q = vec![0; p.len()];
    for (a, &b) in p.iter().enumerate() {
        q[b] = a;
    }
    q
}

/// Canonical codes of all equivalence classes of transitive actions of <gens | rels> on exactly
/// k points (= conjugacy classes of subgroups of index k). None if the search space
/// p(k) * (k!)^(gens-1) exceeds `budget`.
pub fn transitive_actions(pres: &Pres, k: usize, budget: u64) -> Option<BTreeSet<Vec<usize>>> {
    let n = pres.nr_gens;
    let perms = perms_of(k);
    if n == 0 {
        let mut s = BTreeSet::new();
        if k == 1 {
            s.insert(Table::from_forward(0, vec![vec![]])?.canonical_code());
        }
        return Some(s);
    }
    let space = (cycle_type_reps(k).len() as u64).checked_mul((perms.len() as u64).checked_pow(n as u32 - 1)?)?;
    if space > budget {
        return None;
    }
    let rels: Vec<Word> = pres.rels.iter().map(|w| free_reduce(w)).filter(|w| !w.is_empty()).collect();
    // relators checkable once generators 1..=g are assigned
    let mut due: Vec<Vec<&Word>> = vec![vec![]; n + 1];
    for w in &rels {
        let mx = w.iter().map(|x| x.unsigned_abs() as usize).max().unwrap_or(0);
        if mx > n {
            return None;
        }
        due[mx].push(w);
    }
    let mut out = BTreeSet::new();
    let mut img: Vec<Vec<usize>> = vec![];
    let mut inv: Vec<Vec<usize>> = vec![];
    fn holds(w: &Word, img: &[Vec<usize>], inv: &[Vec<usize>], k: usize) -> bool {
        (0..k).all(|s| {
            let mut x = s;
            for &g in w {
                x = if g > 0 { img[(g - 1) as usize][x] } else { inv[(-g - 1) as usize][x] };
            }
            x == s
        })
    }
    fn rec(pos: usize, n: usize, k: usize, perms: &[Vec<usize>], firsts: &[Vec<usize>], due: &[Vec<&Word>], img: &mut Vec<Vec<usize>>, inv: &mut Vec<Vec<usize>>, out: &mut BTreeSet<Vec<usize>>) {
        if pos == n {
            let fwd: Vec<Vec<usize>> = (0..k).map(|r| (0..n).map(|g| img[g][r]).collect()).collect();
            if let Some(t) = Table::from_forward(n, fwd) {
                if t.is_transitive() {
                    out.insert(t.canonical_code());
                }
            }
            return;
        }
        let cands: &[Vec<usize>] = if pos == 0 { firsts } else { perms };
        for p in cands {
            img.push(p.clone());
            inv.push(perm_inverse(p));
            if due[pos + 1].iter().all(|w| holds(w, img, inv, k)) {
                rec(pos + 1, n, k, perms, firsts, due, img, inv, out);
            }
            img.pop();
            inv.pop();
        }
    }
    let firsts = cycle_type_reps(k);
    if n >= 2 && space > 20_000 {
        // split over the images of the first two generators
        use rayon::prelude::*;
        let pairs: Vec<(usize, usize)> = (0..firsts.len()).flat_map(|a| (0..perms.len()).map(move |b| (a, b))).collect();
        let parts: Vec<BTreeSet<Vec<usize>>> = pairs
            .par_iter()
            .map(|&(a, b)| {
                let mut out = BTreeSet::new();
                let mut img = vec![firsts[a].clone()];
                let mut inv = vec![perm_inverse(&firsts[a])];
                if !due[1].iter().all(|w| holds(w, &img, &inv, k)) {
                    return out;
                }
                img.push(perms[b].clone());
                inv.push(perm_inverse(&perms[b]));
                if due[2].iter().all(|w| holds(w, &img, &inv, k)) {
                    rec(2, n, k, &perms, &firsts, &due, &mut img, &mut inv, &mut out);
                }
                out
            })
            .collect();
        for p in parts {
            out.extend(p);
        }
        return Some(out);
    }
    rec(0, n, k, &perms, &firsts, &due, &mut img, &mut inv, &mut out);
    Some(out)
}

// ---------------------------------------------------------------------------
// O-RS: textbook Reidemeister-Schreier

pub struct Schreier {
    /// generators of the stabiliser of `base` as words in the original generators
    pub gens: Vec<Word>,
    /// relators in the Schreier generators (letters +-1..+-gens.len()), freely reduced, non-empty
    pub rels: Vec<Word>,
}

pub fn reidemeister_schreier(t: &Table, rels: &[Word], base: usize) -> Schreier {
    let n = t.len();
    // BFS tree over positive and negative generators
    let mut tree_edge: BTreeSet<(usize, i64)> = BTreeSet::new();
    let trans = t.transversal(base);
    {
        let mut seen = vec![false; n];
        seen[base] = true;
        let mut q = VecDeque::from([base]);
        while let Some(r) = q.pop_front() {
            for g in 1..=t.nr_gens as i64 {
                for h in [g, -g] {
                    let x = t.step(r, h);
                    if !seen[x] {
                        seen[x] = true;
                        // normalise the edge to its positive direction
                        if h > 0 {
                            tree_edge.insert((r, h));
                        } else {
                            tree_edge.insert((x, -h));
                        }
                        q.push_back(x);
                    }
                }
            }
        }
    }
    // Schreier generator per non-tree positive edge
    let mut index: BTreeMap<(usize, i64), i64> = BTreeMap::new();
    let mut gens = vec![];
    for r in 0..n {
        for g in 1..=t.nr_gens as i64 {
            if !tree_edge.contains(&(r, g)) {
                let mut w = trans[r].clone();
                w.push(g);
                w.extend(inv_word(&trans[t.step(r, g)]));
                gens.push(free_reduce(&w));
                index.insert((r, g), gens.len() as i64);
            }
        }
    }
    let mut out_rels: BTreeSet<Word> = BTreeSet::new();
    for r in 0..n {
        for w in rels {
            let mut x = r;
            let mut word = vec![];
            for &g in w {
                if g > 0 {
                    if let Some(&s) = index.get(&(x, g)) {
                        word.push(s);
                    }
                    x = t.step(x, g);
                } else {
                    let y = t.step(x, g);
                    if let Some(&s) = index.get(&(y, -g)) {
                        word.push(-s);
                    }
                    x = y;
                }
            }
            let red = relator_class(&word);
            if !red.is_empty() {
                out_rels.insert(red);
            }
        }
    }
    Schreier { gens, rels: out_rels.into_iter().collect() }
}

/// number of equivalence classes of transitive actions on <= k points, per index; None if over budget
pub fn subgroup_class_counts(pres: &Pres, k: usize, budget: u64) -> Option<Vec<usize>> {
    (1..=k).map(|j| transitive_actions(pres, j, budget).map(|s| s.len())).collect()
}

/// Tietze-style simplification: remove generators that occur exactly once in some relator
/// (x = word), substitute, renumber. Keeps the group, shrinks brute-force searches.
pub fn simplify_presentation(pres: &Pres) -> Pres {
    let mut n = pres.nr_gens;
    let mut rels: Vec<Word> = pres.rels.iter().map(|w| cyclic_reduce(w)).filter(|w| !w.is_empty()).collect();
    loop {
        rels.sort_by_key(|w| w.len());
        rels.dedup();
        let mut found: Option<(usize, i64, Word)> = None;
        'search: for (ri, w) in rels.iter().enumerate() {
            for (pos, &l) in w.iter().enumerate() {
                let g = l.abs();
                if w.iter().filter(|x| x.abs() == g).count() == 1 {
                    // w = u l v  =>  l = u^-1 v^-1  => g = (u^-1 v^-1)^(sign)
                    let u = &w[..pos];
                    let v = &w[pos + 1..];
                    let mut val = inv_word(u);
                    val.extend(inv_word(v));
                    let val = if l > 0 { val } else { inv_word(&val) };
                    found = Some((ri, g, free_reduce(&val)));
                    break 'search;
                }
            }
        }
        let (ri, g, val) = match found {
            None => break,
            Some(f) => f,
        };
        rels.remove(ri);
        let ival = inv_word(&val);
        let subst = |w: &Word| -> Word {
            let mut out: Word = vec![];
            for &l in w {
                if l == g {
                    out.extend(val.iter());
                } else if l == -g {
                    out.extend(ival.iter());
                } else {
                    out.push(l);
                }
            }
            // renumber the generators above g
            let out: Word = out
                .into_iter()
                .map(|l| {
                    let a = l.abs();
                    let b = if a > g { a - 1 } else { a };
                    if l > 0 {
                        b
                    } else {
                        -b
                    }
                })
                .collect();
            cyclic_reduce(&out)
        };
        // val must not mention g (it does not: g occurred once in w)
        rels = rels.iter().map(subst).filter(|w| !w.is_empty()).collect();
        n -= 1;
        if n == 0 {
            break;
        }
    }
    rels.sort();
    rels.dedup();
    Pres { nr_gens: n, rels }
}
