//! O-ORB2 — own 2D orbifold invariants of a D-symbol: exact curvature, cone points, boundary
//! components with their corner sequences (modulo rotation and reversal), orientability, genus;
//! Conway symbol parser and orbifold Euler characteristic.
use crate::model::DS;
use num_rational::Rational64 as Q;
use num_traits::Zero;

#[derive(Clone, Debug, PartialEq, Eq, PartialOrd, Ord, Hash)]
pub struct Orb {
    /// cone orders, descending
    pub cones: Vec<usize>,
    /// one normalised corner sequence per boundary component (possibly empty), sorted
    pub boundaries: Vec<Vec<usize>>,
    pub handles: usize,
    pub crosscaps: usize,
}

/// minimum over all rotations of the sequence and of its reversal
pub fn normalize_cycle(seq: &[usize]) -> Vec<usize> {
    if seq.is_empty() {
        return vec![];
    }
    let mut best: Option<Vec<usize>> = None;
    let rev: Vec<usize> = seq.iter().rev().cloned().collect();
    for s in [seq.to_vec(), rev] {
        for k in 0..s.len() {
            let mut r = s[k..].to_vec();
            r.extend_from_slice(&s[..k]);
            if best.as_ref().map_or(true, |b| r < *b) {
                best = Some(r);
            }
        }
    }
    best.unwrap()
}

impl Orb {
    pub fn normalized(mut self) -> Orb {
        self.cones.sort_by(|a, b| b.cmp(a));
        self.boundaries = self.boundaries.iter().map(|b| normalize_cycle(b)).collect();
        self.boundaries.sort();
        self
    }

    /// orbifold Euler characteristic
    pub fn euler(&self) -> Q {
        let mut chi = Q::from(2) - Q::from(2 * self.handles as i64) - Q::from(self.crosscaps as i64);
        for &c in &self.cones {
            chi -= Q::from(1) - Q::new(1, c as i64);
        }
        for b in &self.boundaries {
            chi -= Q::from(1);
            for &c in b {
                chi -= (Q::from(1) - Q::new(1, c as i64)) / Q::from(2);
            }
        }
        chi
    }

    pub fn corners(&self) -> Vec<usize> {
        self.boundaries.iter().flatten().cloned().collect()
    }

    /// tear-drop or spindle: one cone or corner point, or two of different order, on a sphere / disk
    pub fn is_bad(&self) -> bool {
        if self.handles > 0 || self.crosscaps > 0 {
            return false;
        }
        let two_diff = |v: &Vec<usize>| v.len() == 1 || (v.len() == 2 && v[0] != v[1]);
        match self.boundaries.len() {
            0 => two_diff(&self.cones),
            1 => self.cones.is_empty() && two_diff(&self.boundaries[0]),
            _ => false,
        }
    }
}

/// exact curvature: sum over chambers of 1/m01 + 1/m12 + 1/m02 - 1 with m02 = 2
pub fn curvature(ds: &DS) -> Q {
    assert!(ds.dim == 2);
    let mut k = Q::zero();
    for d in 1..=ds.size {
        k += Q::new(1, ds.m(0, d) as i64) + Q::new(1, ds.m(1, d) as i64) + Q::new(1, 2) - Q::from(1);
    }
    k
}

/// proper 2-colouring ignoring loops, if one exists
pub fn two_colouring(ds: &DS) -> Option<Vec<u8>> {
    let mut col = vec![0u8; ds.size + 1];
    for s in 1..=ds.size {
        if col[s] != 0 {
            continue;
        }
        col[s] = 1;
        let mut stack = vec![s];
        while let Some(d) = stack.pop() {
            for i in 0..=ds.dim {
                let e = ds.op[i][d];
                if e == 0 || e == d {
                    continue;
                }
                if col[e] == 0 {
                    col[e] = 3 - col[d];
                    stack.push(e);
                } else if col[e] == col[d] {
                    return None;
                }
            }
        }
    }
    Some(col)
}

fn v2(ds: &DS, i: usize, j: usize, d: usize) -> usize {
    let (i, j) = (i.min(j), i.max(j));
    if j == i + 1 {
        ds.v[i][d]
    } else {
        2 / ds.r(i, j, d)
    }
}

/// invariants of a connected complete 2D symbol (non-adjacent operations commuting)
pub fn invariants(ds: &DS) -> Result<Orb, String> {
    if ds.dim != 2 || !ds.is_connected() {
        return Err("harness: orbifold invariants need a connected 2D symbol".into());
    }
    let mut cones = vec![];
    let mut corner_sum = Q::zero();
    for (i, j) in [(0usize, 1usize), (1, 2), (0, 2)] {
        for orb in ds.components(&[i, j]) {
            let looped = orb.iter().any(|&d| ds.op[i][d] == d || ds.op[j][d] == d);
            let v = v2(ds, i, j, orb[0]);
            if v > 1 {
                if looped {
                    corner_sum += (Q::from(1) - Q::new(1, v as i64)) / Q::from(2);
                } else {
                    cones.push(v);
                }
            }
        }
    }
    // boundary cycles
    let far_end = |i: usize, j: usize, d: usize| -> (usize, usize) {
        let (mut k, mut e) = (j, d);
        while ds.op[k][e] != e {
            e = ds.op[k][e];
            k = i + j - k;
        }
        (k, e)
    };
    let mut seen = vec![[false; 3]; ds.size + 1];
    let mut boundaries = vec![];
    for i0 in 0..=2 {
        for d0 in 1..=ds.size {
            if ds.op[i0][d0] != d0 || seen[d0][i0] {
                continue;
            }
            let mut corners = vec![];
            let (mut i, mut d) = (i0, d0);
            let mut j = (i0 + 1) % 3;
            let mut steps = 0;
            loop {
                seen[d][i] = true;
                let v = v2(ds, i, j, d);
                if v > 1 {
                    corners.push(v);
                }
                let (k, e) = far_end(i, j, d);
                let third = 3 - i - j;
                i = k;
                d = e;
                j = third;
                steps += 1;
                if (i, d) == (i0, d0) {
                    break;
                }
                if steps > 3 * ds.size + 3 {
                    return Err("harness: boundary walk does not close".into());
                }
            }
            boundaries.push(corners);
        }
    }
    let cone_sum: Q = cones.iter().map(|&c| Q::from(1) - Q::new(1, c as i64)).sum();
    let chi = curvature(ds) / Q::from(2) + cone_sum + corner_sum;
    if !chi.is_integer() {
        return Err(format!("harness: surface Euler characteristic {} is not an integer", chi));
    }
    let x = 2 - boundaries.len() as i64 - chi.to_integer();
    if x < 0 {
        return Err(format!("harness: negative genus ({})", x));
    }
    let orientable = two_colouring(ds).is_some();
    let (handles, crosscaps) = if orientable {
        if x % 2 != 0 {
            return Err("harness: odd genus defect on an orientable surface".into());
        }
        ((x / 2) as usize, 0)
    } else {
        if x == 0 {
            return Err("harness: non-orientable surface without crosscap".into());
        }
        (0, x as usize)
    };
    Ok(Orb { cones, boundaries, handles, crosscaps }.normalized())
}

/// parser for the Conway symbols the crate prints ("(12)" for orders >= 10, "1", "1*", "1x" for the empty symbol)
pub fn parse_conway(s: &str) -> Option<Orb> {
    let chars: Vec<char> = s.chars().collect();
    let mut pos = 0;
    let mut cones = vec![];
    let mut boundaries: Vec<Vec<usize>> = vec![];
    let mut handles = 0;
    let mut crosscaps = 0;
    let mut in_boundary = false;
    let mut tail = false;
    if chars.first() == Some(&'1') && (chars.len() == 1 || chars[1] == '*' || chars[1] == 'x' || chars[1] == 'o') {
        pos = 1;
    }
    while pos < chars.len() {
        let c = chars[pos];
        match c {
            '*' => {
                if tail {
                    return None;
                }
                boundaries.push(vec![]);
                in_boundary = true;
                pos += 1;
            }
            'o' => {
                handles += 1;
                tail = true;
                pos += 1;
            }
            'x' => {
                crosscaps += 1;
                tail = true;
                pos += 1;
            }
            '(' => {
                let end = chars[pos..].iter().position(|&x| x == ')')? + pos;
                let n: usize = chars[pos + 1..end].iter().collect::<String>().parse().ok()?;
                if tail || n < 2 {
                    return None;
                }
                if in_boundary {
                    boundaries.last_mut()?.push(n);
                } else {
                    cones.push(n);
                }
                pos = end + 1;
            }
            d if d.is_ascii_digit() => {
                let n = d.to_digit(10)? as usize;
                if tail || n < 2 {
                    return None;
                }
                if in_boundary {
                    boundaries.last_mut()?.push(n);
                } else {
                    cones.push(n);
                }
                pos += 1;
            }
            _ => return None,
        }
    }
    if handles > 0 && crosscaps > 0 {
        return None;
    }
    Some(Orb { cones, boundaries, handles, crosscaps }.normalized())
}

/// the generator's fixed list of good spherical orbifolds (C07), as data
pub const GOOD_SPHERICAL: [&str; 31] = [
    "", "*", "x", "532", "432", "332", "422", "322", "222", "44", "33", "22", "*532", "*432", "*332", "3*2", "*422", "*322", "*222", "2*4", "2*3", "2*2", "*44", "*33",
    "*22", "4*", "3*", "2*", "4x", "3x", "2x",
];
