//! independent oracles
pub mod snf;
pub mod linalg;
pub mod iso;
pub mod orb2;
pub mod groups;
pub mod fg;
