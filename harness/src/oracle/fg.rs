//! O-FG — textbook presentation of the orbifold fundamental group of a D-symbol:
//! one generator per facet pair outside the harness's own spanning tree, x(op_i d, i) = x(d, i)^-1,
//! x^2 = 1 for mirrors, and one relator (word around the orbit)^v per 2-orbit.
use crate::gen::covers::{frame, Frame};
use crate::model::DS;
use crate::oracle::groups::{free_reduce, Pres, Word};

pub struct OwnFg {
    pub pres: Pres,
    /// generator number of each non-tree edge of the frame (0 = tree edge)
    pub gen_of_edge: Vec<i64>,
    pub frame: Frame,
}

pub fn own_fundamental_group(ds: &DS) -> OwnFg {
    let f = frame(ds);
    let mut gen_of_edge = vec![0i64; f.edges.len()];
    let mut n = 0;
    for &e in &f.free {
        n += 1;
        gen_of_edge[e] = n;
    }
    let letter = |idx: usize, x: usize| -> i64 {
        let e = f.edge_of[idx][x];
        let g = gen_of_edge[e];
        let (_, lower) = f.edges[e];
        if x == lower {
            g
        } else {
            -g
        }
    };
    let mut rels: Vec<Word> = vec![];
    // mirrors
    for (e, &(i, d)) in f.edges.iter().enumerate() {
        if ds.op[i][d] == d && gen_of_edge[e] != 0 {
            rels.push(vec![gen_of_edge[e], gen_of_edge[e]]);
        }
    }
    for (steps, v) in &f.cycles {
        let w: Word = steps.iter().map(|&(idx, x)| letter(idx, x)).filter(|&l| l != 0).collect();
        let w = free_reduce(&w);
        let mut r = vec![];
        for _ in 0..*v {
            r.extend(w.iter());
        }
        let r = free_reduce(&r);
        if !r.is_empty() {
            rels.push(r);
        }
    }
    OwnFg { pres: Pres { nr_gens: n as usize, rels }, gen_of_edge, frame: f }
}
