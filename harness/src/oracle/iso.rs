//! O-ISO — brute-force morphisms, isomorphism, automorphisms, own canonical code;
//! O-CONG — coarsest degree-respecting congruence by partition refinement.
use crate::model::DS;
use std::collections::{BTreeMap, VecDeque};

/// relabelling-invariant code of the BFS started at chamber s (connected symbols)
pub fn bfs_code(ds: &DS, s: usize, with_v: bool) -> (Vec<usize>, Vec<usize>) {
    let mut label = vec![0usize; ds.size + 1];
    let mut code = Vec::with_capacity(ds.size * (2 * ds.dim + 1));
    let mut q = VecDeque::from([s]);
    label[s] = 1;
    let mut next = 2;
    while let Some(x) = q.pop_front() {
        for i in 0..=ds.dim {
            let y = ds.op[i][x];
            if y == 0 {
                code.push(0);
                continue;
            }
            if label[y] == 0 {
                label[y] = next;
                next += 1;
                q.push_back(y);
            }
            code.push(label[y]);
        }
        if with_v {
            for i in 0..ds.dim {
                code.push(ds.v[i][x]);
            }
        }
    }
    (code, label)
}

/// minimum BFS code over all start chambers: a complete isomorphism invariant of connected symbols
pub fn canonical_code(ds: &DS, with_v: bool) -> Vec<usize> {
    let mut best: Option<Vec<usize>> = None;
    for s in 1..=ds.size {
        let (c, _) = bfs_code(ds, s, with_v);
        if best.as_ref().map_or(true, |b| c < *b) {
            best = Some(c);
        }
    }
    let mut out = vec![ds.dim, ds.size];
    out.extend(best.unwrap_or_default());
    out
}

/// the symbol relabelled by its minimal BFS (own canonical representative)
pub fn canonical_ds(ds: &DS) -> DS {
    let mut best: Option<(Vec<usize>, Vec<usize>)> = None;
    for s in 1..=ds.size {
        let (c, l) = bfs_code(ds, s, true);
        if best.as_ref().map_or(true, |b| c < b.0) {
            best = Some((c, l));
        }
    }
    ds.renumbered(&best.unwrap().1)
}

/// Try to extend 1 -> e to a map x -> y commuting with all operations and preserving all degrees.
/// `degrees`: also require m equal (symbols) — otherwise D-set morphism.
pub fn morphism(x: &DS, y: &DS, e: usize, degrees: bool) -> Option<Vec<usize>> {
    if x.dim != y.dim || e < 1 || e > y.size {
        return None;
    }
    let mut map = vec![0usize; x.size + 1];
    map[1] = e;
    let mut q = VecDeque::from([1usize]);
    while let Some(d) = q.pop_front() {
        for i in 0..=x.dim {
            let di = x.op[i][d];
            let ei = y.op[i][map[d]];
            if map[di] == 0 {
                map[di] = ei;
                q.push_back(di);
            } else if map[di] != ei {
                return None;
            }
        }
    }
    // x connected => everything mapped; verify exhaustively
    for d in 1..=x.size {
        if map[d] == 0 {
            return None;
        }
        for i in 0..=x.dim {
            if map[x.op[i][d]] != y.op[i][map[d]] {
                return None;
            }
        }
        if degrees {
            for i in 0..x.dim {
                if x.m(i, d) != y.m(i, map[d]) {
                    return None;
                }
            }
        }
    }
    Some(map)
}

pub fn is_isomorphic(x: &DS, y: &DS) -> bool {
    x.dim == y.dim && x.size == y.size && (1..=y.size).any(|e| morphism(x, y, e, true).is_some())
}

/// all automorphisms (as maps with index 0 unused)
pub fn automorphisms(x: &DS, degrees: bool) -> Vec<Vec<usize>> {
    (1..=x.size).filter_map(|e| morphism(x, x, e, degrees)).collect()
}

/// number of classes and class index per chamber of the coarsest congruence respecting all degrees
pub fn coarsest_congruence(x: &DS) -> (usize, Vec<usize>) {
    let n = x.size;
    // initial partition by degree vector
    let mut block = vec![0usize; n + 1];
    {
        let mut ids: BTreeMap<Vec<usize>, usize> = BTreeMap::new();
        for d in 1..=n {
            let key: Vec<usize> = (0..x.dim).map(|i| x.m(i, d)).collect();
            let k = ids.len();
            block[d] = *ids.entry(key).or_insert(k);
        }
    }
    loop {
        let mut ids: BTreeMap<Vec<usize>, usize> = BTreeMap::new();
        let mut next = vec![0usize; n + 1];
        for d in 1..=n {
            let mut key = vec![block[d]];
            for i in 0..=x.dim {
                key.push(block[x.op[i][d]]);
            }
            let k = ids.len();
            next[d] = *ids.entry(key).or_insert(k);
        }
        let before = block[1..].iter().collect::<std::collections::BTreeSet<_>>().len();
        let after = ids.len();
        block = next;
        if after == before {
            return (after, block);
        }
    }
}
