//! Shared machinery: tiers, seeding, panic capture, journal, statistics,
//! shrinking glue (proptest), evidence files, known findings, replay.

use proptest::strategy::{Strategy, ValueTree};
use proptest::test_runner::{Config, RngAlgorithm, TestCaseError, TestError, TestRng, TestRunner};
use rayon::prelude::*;
use serde_json::{json, Map, Value};
use std::cell::RefCell;
use std::collections::hash_map::DefaultHasher;
use std::collections::{BTreeMap, HashSet};
use std::fmt::Debug;
use std::hash::{Hash, Hasher};
use std::panic::{catch_unwind, AssertUnwindSafe};
use std::path::{Path, PathBuf};
use std::sync::atomic::{AtomicBool, AtomicU64, Ordering};
use std::sync::Mutex;
use std::time::Instant;

/// the verification root: the directory the `check` wrapper runs the binary in (normally /verif;
/// a snapshot of it under `vp run`)
pub fn verif_root() -> PathBuf {
    static ROOT: std::sync::OnceLock<PathBuf> = std::sync::OnceLock::new();
    ROOT.get_or_init(|| {
        let cwd = std::env::current_dir().unwrap_or_else(|_| PathBuf::from("/verif"));
        if cwd.join("properties.jsonl").exists() {
            cwd
        } else {
            PathBuf::from("/verif")
        }
    })
    .clone()
}

#[derive(Clone, Copy, Debug, PartialEq, Eq)]
pub enum Tier {
    Quick,
    Thorough,
}

impl Tier {
    pub fn name(self) -> &'static str {
        match self {
            Tier::Quick => "quick",
            Tier::Thorough => "thorough",
        }
    }
    /// pick a bound by tier
    pub fn pick<T>(self, quick: T, thorough: T) -> T {
        match self {
            Tier::Quick => quick,
            Tier::Thorough => thorough,
        }
    }
}

/// A generated case: hashable (distinct counting), encodable (samples, replay).
pub trait Case: Clone + Debug + Send + Sync {
    fn encode(&self) -> Value;
    fn decode(v: &Value) -> Option<Self>;
    /// a size used to pick the "largest" sample
    fn weight(&self) -> usize {
        0
    }
    fn hash64(&self) -> u64 {
        let mut h = DefaultHasher::new();
        self.encode().to_string().hash(&mut h);
        h.finish()
    }
}

/// What a check reports about a case besides pass / fail.
#[derive(Default, Debug, Clone)]
pub struct Obs {
    pub nontrivial: bool,
    pub classes: Vec<String>,
    pub discard: Option<String>,
}

impl Obs {
    pub fn nontrivial(&mut self, b: bool) {
        self.nontrivial |= b;
    }
    pub fn class(&mut self, c: &str) {
        self.classes.push(c.to_string());
    }
    pub fn classify(&mut self, cond: bool, c: &str) {
        if cond {
            self.classes.push(c.to_string());
        }
    }
    pub fn discard(&mut self, why: &str) {
        self.discard = Some(why.to_string());
    }
}

pub type CheckFn<C> = fn(&C, &mut Obs) -> Result<(), String>;

pub struct Sub<C: Case> {
    pub name: &'static str,
    pub rule: &'static str,
    pub check: CheckFn<C>,
    /// substrings of panic messages which are documented discards, not violations
    pub panic_discards: &'static [&'static str],
    /// journal every case before executing it (needed when the code under test may abort)
    pub journal: bool,
}

#[derive(Debug, Clone)]
pub struct Failure {
    pub case: Value,
    pub message: String,
    pub index: u64,
}

#[derive(Default)]
pub struct SubStat {
    pub name: String,
    pub rule: String,
    pub evaluations: u64,
    pub nontrivial_evals: u64,
    pub nontrivial: HashSet<u64>,
    /// non-trivial cases of injective enumerations counted without hashing once the set is large
    pub nontrivial_extra: u64,
    pub injective: bool,
    pub classes: BTreeMap<String, u64>,
    pub discards: BTreeMap<String, u64>,
    pub excluded_known: u64,
    pub first_sample: Option<Value>,
    pub mid_sample: Option<Value>,
    pub largest_sample: Option<(usize, Value)>,
    pub failure: Option<Failure>,
    pub exhaustive: Option<String>,
    pub generator: Vec<String>,
    pub wall_s: f64,
}

impl SubStat {
    pub fn distinct(&self) -> u64 {
        self.nontrivial.len() as u64 + self.nontrivial_extra
    }
    fn merge(&mut self, o: SubStat) {
        self.evaluations += o.evaluations;
        self.nontrivial_evals += o.nontrivial_evals;
        self.nontrivial.extend(o.nontrivial);
        self.nontrivial_extra += o.nontrivial_extra;
        for (k, v) in o.classes {
            *self.classes.entry(k).or_insert(0) += v;
        }
        for (k, v) in o.discards {
            *self.discards.entry(k).or_insert(0) += v;
        }
        self.excluded_known += o.excluded_known;
        if self.first_sample.is_none() {
            self.first_sample = o.first_sample;
        }
        if o.mid_sample.is_some() {
            self.mid_sample = o.mid_sample;
        }
        match (&self.largest_sample, o.largest_sample) {
            (Some((a, _)), Some((b, v))) if b > *a => self.largest_sample = Some((b, v)),
            (None, Some(x)) => self.largest_sample = Some(x),
            _ => {}
        }
        match (&self.failure, o.failure) {
            (Some(a), Some(b)) if b.index < a.index => self.failure = Some(b),
            (None, Some(b)) => self.failure = Some(b),
            _ => {}
        }
    }

    fn record<C: Case>(&mut self, case: &C, obs: &Obs) {
        self.evaluations += 1;
        if let Some(d) = &obs.discard {
            *self.discards.entry(d.clone()).or_insert(0) += 1;
            return;
        }
        for c in &obs.classes {
            *self.classes.entry(c.clone()).or_insert(0) += 1;
        }
        if obs.nontrivial {
            self.nontrivial_evals += 1;
            if self.injective && self.nontrivial.len() >= 50_000 {
                self.nontrivial_extra += 1;
                return;
            }
            let h = case.hash64();
            if self.nontrivial.insert(h) {
                let n = self.nontrivial.len();
                if self.first_sample.is_none() {
                    self.first_sample = Some(case.encode());
                } else if n.is_power_of_two() || n % 1000 == 500 {
                    // a deterministic "somewhere in the middle" sample
                    self.mid_sample = Some(case.encode());
                }
                let w = case.weight();
                if self.largest_sample.as_ref().map_or(true, |(a, _)| w > *a) {
                    self.largest_sample = Some((w, case.encode()));
                }
            }
        }
    }
}

// ---------------------------------------------------------------------------
// panic capture

thread_local! {
    static LAST_PANIC: RefCell<Option<String>> = RefCell::new(None);
    static IN_GUARD: std::cell::Cell<u32> = std::cell::Cell::new(0);
}

pub fn install_panic_hook() {
    std::panic::set_hook(Box::new(|info| {
        let msg = if let Some(s) = info.payload().downcast_ref::<&str>() {
            s.to_string()
        } else if let Some(s) = info.payload().downcast_ref::<String>() {
            s.clone()
        } else {
            "<non-string panic>".to_string()
        };
        let loc = info
            .location()
            .map(|l| format!("{}:{}", l.file(), l.line()))
            .unwrap_or_default();
        if IN_GUARD.with(|g| g.get()) == 0 {
            // a panic of the harness itself, outside any case: make it visible
            eprintln!("harness panic: {} @ {}", msg, loc);
        }
        LAST_PANIC.with(|p| *p.borrow_mut() = Some(format!("{} @ {}", msg, loc)));
    }));
}

/// Run `f`, turning a panic into Err(message with location).
pub fn guarded<T>(f: impl FnOnce() -> T) -> Result<T, String> {
    LAST_PANIC.with(|p| *p.borrow_mut() = None);
    IN_GUARD.with(|g| g.set(g.get() + 1));
    let r = catch_unwind(AssertUnwindSafe(f));
    IN_GUARD.with(|g| g.set(g.get() - 1));
    match r {
        Ok(v) => Ok(v),
        Err(_) => Err(LAST_PANIC
            .with(|p| p.borrow_mut().take())
            .unwrap_or_else(|| "<panic without message>".into())),
    }
}

// ---------------------------------------------------------------------------
// per-case watchdog: a case that runs longer than the budget ends the run as INCONCLUSIVE (exit 2)
// with the case written out, instead of waiting for the whole-run budget of the parent

type Slot = Mutex<Option<(Instant, usize, fn(usize) -> Value, &'static str)>>;
const NSLOTS: usize = 128;
static SLOTS: [Slot; NSLOTS] = [const { Mutex::new(None) }; NSLOTS];
static NEXT_SLOT: std::sync::atomic::AtomicUsize = std::sync::atomic::AtomicUsize::new(0);
thread_local! {
    static MY_SLOT: usize = NEXT_SLOT.fetch_add(1, Ordering::Relaxed) % NSLOTS;
}

fn encode_erased<C: Case>(p: usize) -> Value {
    // only called by the watchdog while the owning thread is still inside the case (slot locked)
    unsafe { (&*(p as *const C)).encode() }
}

/// replay files of violations already established in this run: a later hang does not take them back
static ESTABLISHED: Mutex<Vec<std::path::PathBuf>> = Mutex::new(Vec::new());

pub fn start_case_watchdog(prop: &'static str, budget_s: u64) {
    std::thread::spawn(move || loop {
        std::thread::sleep(std::time::Duration::from_millis(500));
        for slot in SLOTS.iter() {
            let guard = slot.lock().unwrap();
            if let Some((t0, ptr, enc, sub)) = *guard {
                if t0.elapsed().as_secs() >= budget_s {
                    let case = enc(ptr);
                    let dir = verif_root().join("replays");
                    let _ = std::fs::create_dir_all(&dir);
                    let path = dir.join(format!("{}-watchdog-{}.json", prop, sub));
                    let doc = json!({"property": prop, "subcheck": sub, "case": case, "observed": format!("case did not finish within {} s", budget_s)});
                    let _ = std::fs::write(&path, serde_json::to_string_pretty(&doc).unwrap());
                    let established = ESTABLISHED.lock().map(|v| v.clone()).unwrap_or_default();
                    if !established.is_empty() {
                        // violations found before the hang stand on their own (each has its replay file); the
                        // unfinished case adds nothing to them and is only mentioned
                        println!("[{}] note: a case of sub-check {} did not finish within {} s (case={}); reporting the violations established before that", prop, sub, budget_s, path.display());
                        for r in &established {
                            println!("VIOLATION property={} replay={}", prop, r.display());
                        }
                        std::process::exit(1);
                    }
                    println!("INCONCLUSIVE property={} watchdog: a case of sub-check {} did not finish within {} s (slowness is never reported as a violation); case={}", prop, sub, budget_s, path.display());
                    std::process::exit(2);
                }
            }
        }
    });
}

/// Result of executing one case
pub enum Exec {
    Pass,
    Discard,
    Fail(String),
}

fn exec_case<C: Case>(sub: &Sub<C>, case: &C, obs: &mut Obs) -> Exec {
    let slot = MY_SLOT.with(|s| *s);
    *SLOTS[slot].lock().unwrap() = Some((Instant::now(), case as *const C as usize, encode_erased::<C>, sub.name));
    let r = guarded(|| (sub.check)(case, obs));
    *SLOTS[slot].lock().unwrap() = None;
    match r {
        Ok(Ok(())) => {
            if obs.discard.is_some() {
                Exec::Discard
            } else {
                Exec::Pass
            }
        }
        Ok(Err(msg)) => Exec::Fail(msg),
        Err(pmsg) => {
            if let Some(d) = sub.panic_discards.iter().find(|d| pmsg.contains(**d)) {
                obs.discard = Some(format!("panic: {}", d));
                Exec::Discard
            } else {
                Exec::Fail(format!("panic: {}", pmsg))
            }
        }
    }
}

// ---------------------------------------------------------------------------
// journal: the case about to be executed, visible to the parent if the worker dies

pub struct Journal {
    file: Option<std::fs::File>,
}

impl Journal {
    pub fn path(prop: &str) -> PathBuf {
        verif_root().join(format!("harness/target/journal-{}.json", prop))
    }
    fn open(prop: &str) -> Journal {
        let p = Self::path(prop);
        let _ = std::fs::create_dir_all(p.parent().unwrap());
        let file = std::fs::OpenOptions::new()
            .create(true)
            .write(true)
            .truncate(true)
            .open(&p)
            .ok();
        Journal { file }
    }
    fn write(&mut self, sub: &str, case: &Value) {
        use std::os::unix::fs::FileExt;
        if let Some(f) = &self.file {
            let mut s = json!({"subcheck": sub, "case": case}).to_string();
            s.push('\n');
            let _ = f.write_at(s.as_bytes(), 0);
            let _ = f.set_len(s.len() as u64);
        }
    }
    fn clear(&mut self) {
        if let Some(f) = &self.file {
            let _ = f.set_len(0);
        }
    }
}

// ---------------------------------------------------------------------------
// known findings

#[derive(Debug, Clone)]
pub struct KnownFinding {
    pub property: String,
    pub status: String,
    pub subcheck: String,
    pub case_contains: Vec<String>,
    pub message_contains: String,
    pub what: String,
}

pub fn load_known_findings() -> Vec<KnownFinding> {
    let p = verif_root().join("known_findings.json");
    let txt = match std::fs::read_to_string(&p) {
        Ok(t) => t,
        Err(_) => return vec![],
    };
    let v: Value = match serde_json::from_str(&txt) {
        Ok(v) => v,
        Err(_) => return vec![],
    };
    let mut out = vec![];
    if let Some(arr) = v.get("findings").and_then(|a| a.as_array()) {
        for e in arr {
            let s = |k: &str| e.get(k).and_then(|x| x.as_str()).unwrap_or("").to_string();
            out.push(KnownFinding {
                property: s("property"),
                status: s("status"),
                subcheck: s("subcheck"),
                case_contains: e
                    .get("case_contains")
                    .and_then(|x| x.as_array())
                    .map(|a| a.iter().filter_map(|x| x.as_str().map(|s| s.to_string())).collect())
                    .unwrap_or_default(),
                message_contains: s("message_contains"),
                what: s("what"),
            });
        }
    }
    out
}

// ---------------------------------------------------------------------------
// context

pub struct Violation {
    pub subcheck: String,
    pub case: Value,
    pub message: String,
    pub replay: PathBuf,
}

pub struct Ctx {
    pub prop: &'static str,
    pub tier: Tier,
    pub seed: u64,
    pub start: Instant,
    pub subs: Vec<SubStat>,
    pub violations: Vec<Violation>,
    pub known_hits: Vec<String>,
    pub known_subs: Vec<String>,
    pub harness_errors: Vec<String>,
    pub known: Vec<KnownFinding>,
    pub assumptions: Vec<String>,
    pub notes: Vec<String>,
    pub rule: String,
    journal: Journal,
    pub strict: bool,
    pub regressions_run: usize,
    /// suffix for the statistics bucket (exhaustive / random layers of one sub-check)
    pub layer: String,
}

fn mix(seed: u64, a: &str, b: &str) -> [u8; 32] {
    let mut out = [0u8; 32];
    for k in 0..4u64 {
        let mut h = DefaultHasher::new();
        (seed, a, b, k, 0x9e3779b97f4a7c15u64).hash(&mut h);
        out[(k as usize) * 8..(k as usize) * 8 + 8].copy_from_slice(&h.finish().to_le_bytes());
    }
    out
}

impl Ctx {
    pub fn new(prop: &'static str, tier: Tier, seed: u64) -> Ctx {
        Ctx {
            prop,
            tier,
            seed,
            start: Instant::now(),
            subs: vec![],
            violations: vec![],
            known_hits: vec![],
            known_subs: vec![],
            harness_errors: vec![],
            known: load_known_findings(),
            assumptions: vec![],
            notes: vec![],
            rule: String::new(),
            journal: Journal::open(prop),
            strict: false,
            regressions_run: 0,
            layer: String::new(),
        }
    }

    pub fn assume(&mut self, s: &str) {
        self.assumptions.push(s.to_string());
    }
    pub fn note(&mut self, s: impl Into<String>) {
        let s = s.into();
        eprintln!("[{}] note: {}", self.prop, s);
        self.notes.push(s);
    }

    fn stat_mut(&mut self, name: &str, rule: &str) -> usize {
        let name = &if self.layer.is_empty() || name.contains('/') { name.to_string() } else { format!("{}/{}", name, self.layer) };
        if let Some(i) = self.subs.iter().position(|s| &s.name == name) {
            i
        } else {
            self.subs.push(SubStat { name: name.clone(), rule: rule.into(), ..Default::default() });
            self.subs.len() - 1
        }
    }

    pub fn layer(&mut self, l: &str) {
        self.layer = l.to_string();
    }

    pub fn sub_failed(&self, name: &str) -> bool {
        self.violations.iter().any(|v| v.subcheck == name) || self.known_subs.iter().any(|k| k == name)
    }

    fn is_known(&self, sub: &str, case: &Value, msg: &str) -> Option<KnownFinding> {
        let cs = case.to_string();
        self.known
            .iter()
            .find(|k| {
                k.status == "open"
                    && k.property == self.prop
                    && (k.subcheck.is_empty() || k.subcheck == sub)
                    && k.case_contains.iter().all(|c| cs.contains(c.as_str()))
                    && msg.contains(k.message_contains.as_str())
            })
            .cloned()
    }

    fn report_failure(&mut self, sub: &str, f: Failure) {
        if f.message.starts_with("harness:") {
            // an internal assertion of the harness (generator / oracle assumption), never a property violation
            eprintln!("[{}] {} HARNESS ERROR: {}\n    case: {}", self.prop, sub, f.message, f.case);
            self.harness_errors.push(format!("{}: {} on case {}", sub, f.message, f.case));
            self.known_subs.push(sub.to_string());
            return;
        }
        if let Some(k) = self.is_known(sub, &f.case, &f.message) {
            let line = format!("KNOWN-FINDING: property={} {}", self.prop, k.what);
            if !self.known_hits.contains(&line) {
                println!("{}", line);
                self.known_hits.push(line);
            }
            let i = self.stat_mut(sub, "");
            self.subs[i].excluded_known += 1;
            self.known_subs.push(sub.to_string());
            return;
        }
        let mut h = DefaultHasher::new();
        f.case.to_string().hash(&mut h);
        let dir = verif_root().join("replays");
        let _ = std::fs::create_dir_all(&dir);
        let path = dir.join(format!("{}-{}-{:012x}.json", self.prop, sub, h.finish() & 0xffff_ffff_ffff));
        let doc = json!({
            "property": self.prop,
            "subcheck": sub,
            "case": f.case,
            "observed": f.message,
            "seed": self.seed,
            "tier": self.tier.name(),
        });
        let _ = std::fs::write(&path, serde_json::to_string_pretty(&doc).unwrap());
        eprintln!("[{}] {} FAILED: {}\n    case: {}", self.prop, sub, f.message, f.case);
        if let Ok(mut e) = ESTABLISHED.lock() {
            e.push(path.clone());
        }
        self.violations.push(Violation { subcheck: sub.into(), case: f.case, message: f.message, replay: path });
    }

    /// A committed regression case failed: report it with the committed file as replay.
    pub fn report_regression(&mut self, sub: &str, case: Value, message: String, file: &Path) {
        if let Some(k) = self.is_known(sub, &case, &message) {
            let line = format!("KNOWN-FINDING: property={} {}", self.prop, k.what);
            if !self.known_hits.contains(&line) {
                println!("{}", line);
                self.known_hits.push(line);
            }
            return;
        }
        eprintln!("[{}] regression {} FAILED: {}\n    case: {}", self.prop, file.display(), message, case);
        if let Ok(mut e) = ESTABLISHED.lock() {
            e.push(file.to_path_buf());
        }
        self.violations.push(Violation { subcheck: format!("regress/{}", sub), case, message, replay: file.to_path_buf() });
    }

    /// Is this case excluded by an open known finding (so that the search goes on behind it)?
    fn excluded<C: Case>(&self, _sub: &str, _case: &C) -> bool {
        false
    }

    /// Sequential run over an iterator of cases (enumeration order = shrink order).
    pub fn run_iter<C: Case>(&mut self, sub: &Sub<C>, cases: impl IntoIterator<Item = C>, exhaustive: Option<&str>) {
        if self.sub_failed(sub.name) {
            return;
        }
        let t = Instant::now();
        let si = self.stat_mut(sub.name, sub.rule);
        if let Some(e) = exhaustive {
            self.subs[si].exhaustive = Some(e.to_string());
        }
        let mut failure = None;
        let mut idx = 0u64;
        for case in cases {
            if self.excluded(sub.name, &case) {
                self.subs[si].excluded_known += 1;
                continue;
            }
            if sub.journal {
                self.journal.write(sub.name, &case.encode());
            }
            let mut obs = Obs::default();
            match exec_case(sub, &case, &mut obs) {
                Exec::Pass | Exec::Discard => self.subs[si].record(&case, &obs),
                Exec::Fail(msg) => {
                    self.subs[si].evaluations += 1;
                    failure = Some(Failure { case: case.encode(), message: msg, index: idx });
                    break;
                }
            }
            idx += 1;
        }
        if sub.journal {
            self.journal.clear();
        }
        self.subs[si].wall_s += t.elapsed().as_secs_f64();
        if let Some(f) = failure {
            self.report_failure(sub.name, f);
        }
    }

    /// Parallel run over a vector of cases; the failing case with the smallest index is reported.
    pub fn run_par<C: Case>(&mut self, sub: &Sub<C>, cases: Vec<C>, exhaustive: Option<&str>) {
        if self.sub_failed(sub.name) {
            return;
        }
        let t = Instant::now();
        let si = self.stat_mut(sub.name, sub.rule);
        if let Some(e) = exhaustive {
            self.subs[si].exhaustive = Some(e.to_string());
        }
        let stop = AtomicU64::new(u64::MAX);
        let chunk = (cases.len() / 256).max(1);
        let stat = cases
            .par_chunks(chunk)
            .enumerate()
            .map(|(ci, ch)| {
                let mut st = SubStat::default();
                for (k, case) in ch.iter().enumerate() {
                    let idx = (ci * chunk + k) as u64;
                    if idx > stop.load(Ordering::Relaxed) {
                        break;
                    }
                    let mut obs = Obs::default();
                    match exec_case(sub, case, &mut obs) {
                        Exec::Pass | Exec::Discard => st.record(case, &obs),
                        Exec::Fail(msg) => {
                            st.evaluations += 1;
                            stop.fetch_min(idx, Ordering::Relaxed);
                            st.failure = Some(Failure { case: case.encode(), message: msg, index: idx });
                            break;
                        }
                    }
                }
                st
            })
            .reduce(SubStat::default, |mut a, b| {
                a.merge(b);
                a
            });
        let failure = stat.failure.clone();
        let mut stat = stat;
        stat.failure = None;
        self.subs[si].merge(stat);
        self.subs[si].wall_s += t.elapsed().as_secs_f64();
        if let Some(f) = failure {
            self.report_failure(sub.name, f);
        }
    }

    /// Parallel run over an indexed family 0..n (cases produced on the fly, nothing stored).
    pub fn run_par_indexed<C: Case>(
        &mut self,
        sub: &Sub<C>,
        n: u64,
        make: impl Fn(u64) -> Option<C> + Sync,
        exhaustive: Option<&str>,
    ) {
        if self.sub_failed(sub.name) {
            return;
        }
        let t = Instant::now();
        let si = self.stat_mut(sub.name, sub.rule);
        if let Some(e) = exhaustive {
            self.subs[si].exhaustive = Some(e.to_string());
        }
        let stop = AtomicU64::new(u64::MAX);
        let nchunks = 1024u64.min(n.max(1));
        let chunk = (n + nchunks - 1) / nchunks.max(1);
        let stat = (0..nchunks)
            .into_par_iter()
            .map(|ci| {
                let mut st = SubStat { injective: true, ..Default::default() };
                let lo = ci * chunk;
                let hi = ((ci + 1) * chunk).min(n);
                for idx in lo..hi {
                    if idx > stop.load(Ordering::Relaxed) {
                        break;
                    }
                    let case = match make(idx) {
                        Some(c) => c,
                        None => continue,
                    };
                    let mut obs = Obs::default();
                    match exec_case(sub, &case, &mut obs) {
                        Exec::Pass | Exec::Discard => st.record(&case, &obs),
                        Exec::Fail(msg) => {
                            st.evaluations += 1;
                            stop.fetch_min(idx, Ordering::Relaxed);
                            st.failure = Some(Failure { case: case.encode(), message: msg, index: idx });
                            break;
                        }
                    }
                }
                st
            })
            .reduce(SubStat::default, |mut a, b| {
                a.merge(b);
                a
            });
        let failure = stat.failure.clone();
        let mut stat = stat;
        stat.failure = None;
        self.subs[si].merge(stat);
        self.subs[si].wall_s += t.elapsed().as_secs_f64();
        if let Some(f) = failure {
            self.report_failure(sub.name, f);
        }
    }

    /// proptest-driven run: `n` cases from the strategy built by `make`, shrinking on failure.
    /// The cases are split over parallel streams, each with its own runner seeded from
    /// (VERIF_SEED, property, sub-check, stream); journaled sub-checks use a single stream.
    pub fn run_prop<C: Case, S: Strategy<Value = C>>(&mut self, sub: &Sub<C>, make: impl Fn() -> S + Sync, n: u32) {
        if self.sub_failed(sub.name) {
            return;
        }
        let t = Instant::now();
        let si = self.stat_mut(sub.name, sub.rule);
        let streams: u32 = if sub.journal { 1 } else { (n / 24).clamp(1, 16) };
        let per = (n + streams - 1) / streams;
        let base_seed = self.seed;
        let prop = self.prop;
        let layer = self.layer.clone();
        let journal = Mutex::new(&mut self.journal);
        let any_failed = AtomicBool::new(false);
        let results: Vec<(SubStat, Option<Failure>, Option<String>)> = (0..streams)
            .into_par_iter()
            .map(|k| {
                let seed = mix(base_seed, prop, &format!("{}/{}/{}", sub.name, layer, k));
                let config = Config {
                    cases: per,
                    failure_persistence: None,
                    max_shrink_iters: 4096,
                    max_global_rejects: 1_000_000,
                    max_local_rejects: 1_000_000,
                    ..Config::default()
                };
                let mut runner = TestRunner::new_with_rng(config, TestRng::from_seed(RngAlgorithm::ChaCha, &seed));
                let stat = RefCell::new(SubStat::default());
                let failed = std::cell::Cell::new(false);
                let strategy = make();
                let result = runner.run(&strategy, |case| {
                    if !failed.get() && any_failed.load(Ordering::Relaxed) {
                        // another stream already found a failure: finish quickly
                        return Ok(());
                    }
                    if sub.journal {
                        journal.lock().unwrap().write(sub.name, &case.encode());
                    }
                    let mut obs = Obs::default();
                    match exec_case(sub, &case, &mut obs) {
                        Exec::Pass | Exec::Discard => {
                            if !failed.get() {
                                stat.borrow_mut().record(&case, &obs);
                            }
                            Ok(())
                        }
                        Exec::Fail(msg) => {
                            if !failed.replace(true) {
                                stat.borrow_mut().evaluations += 1;
                                any_failed.store(true, Ordering::Relaxed);
                            }
                            Err(TestCaseError::fail(msg))
                        }
                    }
                });
                let st = stat.into_inner();
                match result {
                    Ok(()) => (st, None, None),
                    Err(TestError::Fail(reason, case)) => {
                        let mut obs = Obs::default();
                        let msg = match exec_case(sub, &case, &mut obs) {
                            Exec::Fail(m) => m,
                            _ => format!("{} (minimal case did not fail when re-run)", reason),
                        };
                        (st, Some(Failure { case: case.encode(), message: msg, index: k as u64 }), None)
                    }
                    Err(TestError::Abort(reason)) => (st, None, Some(format!("{}: proptest aborted: {}", sub.name, reason))),
                }
            })
            .collect();
        drop(journal);
        if sub.journal {
            self.journal.clear();
        }
        let mut failure: Option<Failure> = None;
        for (st, f, note) in results {
            self.subs[si].merge(st);
            if let Some(f) = f {
                // prefer the smallest encoding among the streams' minimal cases
                let better = failure.as_ref().map_or(true, |g| f.case.to_string().len() < g.case.to_string().len());
                if better {
                    failure = Some(f);
                }
            }
            if let Some(n) = note {
                self.note(n);
            }
        }
        self.subs[si].wall_s += t.elapsed().as_secs_f64();
        if let Some(f) = failure {
            self.report_failure(sub.name, f);
        }
    }

    /// Run one explicit case (regression corpus / replay). Returns Err(message) on violation.
    pub fn run_one<C: Case>(&mut self, sub: &Sub<C>, case: &C) -> Result<(), String> {
        let mut obs = Obs::default();
        match exec_case(sub, case, &mut obs) {
            Exec::Pass | Exec::Discard => Ok(()),
            Exec::Fail(m) => Err(m),
        }
    }

    pub fn describe_generator(&mut self, sub: &str, text: impl Into<String>) {
        let i = self.stat_mut(sub, "");
        self.subs[i].generator.push(text.into());
    }

    // -----------------------------------------------------------------------

    pub fn evidence(&self) -> Value {
        let mut evaluations = 0u64;
        let mut distinct = 0u64;
        let mut samples: Vec<Value> = vec![];
        let mut subs = Map::new();
        let mut all_exhaustive = !self.subs.is_empty();
        for s in &self.subs {
            evaluations += s.evaluations;
            distinct += s.distinct();
            let mut ss = vec![];
            if let Some(v) = &s.first_sample {
                ss.push(v.clone());
            }
            if let Some(v) = &s.mid_sample {
                ss.push(v.clone());
            }
            if let Some((_, v)) = &s.largest_sample {
                if !ss.contains(v) {
                    ss.push(v.clone());
                }
            }
            for v in &ss {
                samples.push(json!({"subcheck": s.name, "case": v}));
            }
            if s.exhaustive.is_none() {
                all_exhaustive = false;
            }
            let disc: u64 = s.discards.values().sum();
            subs.insert(
                s.name.clone(),
                json!({
                    "rule": s.rule,
                    "evaluations": s.evaluations,
                    "nontrivial_evaluations": s.nontrivial_evals,
                    "distinct_nontrivial": s.distinct(),
                    "classes": s.classes,
                    "discards": s.discards,
                    "discard_rate": if s.evaluations > 0 { disc as f64 / s.evaluations as f64 } else { 0.0 },
                    "excluded_known": s.excluded_known,
                    "exhaustive": s.exhaustive,
                    "generator": s.generator,
                    "wall_s": (s.wall_s * 1000.0).round() / 1000.0,
                    "samples": ss,
                }),
            );
        }
        let viol: Vec<Value> = self
            .violations
            .iter()
            .map(|v| json!({"subcheck": v.subcheck, "message": v.message, "replay": v.replay.to_string_lossy()}))
            .collect();
        json!({
            "property_id": self.prop,
            "tier": self.tier.name(),
            "seed": self.seed,
            "level": "exploration",
            "coverage": {
                "evaluations": evaluations,
                "distinct_nontrivial": distinct,
                "rule": self.rule,
                "samples": samples,
                "exhaustive": all_exhaustive,
                "subchecks": subs,
                "known_findings_hit": self.known_hits,
                "violation_details": viol,
                "notes": self.notes,
                "harness_errors": self.harness_errors,
                "regression_cases_replayed": self.regressions_run,
            },
            "assumptions": self.assumptions,
            "wall_s": (self.start.elapsed().as_secs_f64() * 1000.0).round() / 1000.0,
            "violations": self.violations.len(),
        })
    }

    pub fn write_evidence(&self) {
        let dir = verif_root().join("evidence");
        let _ = std::fs::create_dir_all(&dir);
        let p = dir.join(format!("{}.json", self.prop));
        let _ = std::fs::write(&p, serde_json::to_string_pretty(&self.evidence()).unwrap() + "\n");
    }

    /// Print the summary and VIOLATION lines; returns the exit code.
    pub fn finish(&self) -> i32 {
        self.write_evidence();
        for s in &self.subs {
            let disc: u64 = s.discards.values().sum();
            println!(
                "[{}] {:<28} evals={:<9} nontrivial={:<8} discards={:<6} {:>7.2}s{}",
                self.prop,
                s.name,
                s.evaluations,
                s.distinct(),
                disc,
                s.wall_s,
                s.exhaustive.as_ref().map(|e| format!("  exhaustive: {}", e)).unwrap_or_default()
            );
        }
        for v in &self.violations {
            println!("VIOLATION property={} replay={}", self.prop, v.replay.display());
        }
        if !self.violations.is_empty() {
            1
        } else if !self.harness_errors.is_empty() {
            println!("INCONCLUSIVE property={} the harness tripped over its own assertion ({} time(s)); this is not a verdict about the code", self.prop, self.harness_errors.len());
            2
        } else {
            println!("[{}] OK tier={} seed={} wall={:.1}s", self.prop, self.tier.name(), self.seed, self.start.elapsed().as_secs_f64());
            0
        }
    }
}

// ---------------------------------------------------------------------------
// helpers for strategies

/// monotone index map (shrinks towards 0)
pub fn pick_index(i: u32, len: usize) -> usize {
    ((i as u64 * len as u64) >> 32) as usize
}

/// generate one value from a strategy with a private deterministic runner (used to
/// build corpora deterministically; all randomness still comes from the seed)
pub fn sample_values<S: Strategy>(strategy: &S, n: usize, seed: u64, tag: &str) -> Vec<S::Value> {
    let seed = mix(seed, "sample", tag);
    let mut runner = TestRunner::new_with_rng(
        Config { failure_persistence: None, ..Config::default() },
        TestRng::from_seed(RngAlgorithm::ChaCha, &seed),
    );
    (0..n).filter_map(|_| strategy.new_tree(&mut runner).ok().map(|t| t.current())).collect()
}


/// Call-history stress for pure routines: `big()` is evaluated, then `small()` n times, then `big()`
/// again, for every n in small windows around 2^8 / p and 2^16 / p (p = 1..=6): the result of `big()`
/// must never change. Scratch buffers with a generation counter of 8 or 16 bits that is bumped p times
/// per call go stale exactly at such distances. Returns the number of small calls made.
pub fn wrap_stress<R: PartialEq + std::fmt::Debug>(big: impl Fn() -> R, small: impl Fn(), what: &str) -> Result<u64, String> {
    let expect = big();
    let mut calls = 0u64;
    for base in [256isize, 65536] {
        for p in 1..=6isize {
            for d in -2..=2isize {
                let n = base / p + d;
                if n <= 0 {
                    continue;
                }
                let first = big();
                if first != expect {
                    return Err(format!("{}: the result changes between calls: {:?} then {:?}", what, expect, first));
                }
                for _ in 0..n {
                    small();
                }
                calls += n as u64;
                let got = big();
                if got != expect {
                    return Err(format!("{}: {:?} before and {:?} after {} calls on a smaller input in between", what, expect, got, n));
                }
            }
        }
    }
    Ok(calls)
}
