//! The harness's own plain-data model of Delaney-Dress sets and symbols.
//! Nothing in here calls a query of the crate under test; conversions to and from
//! the crate's types only use its constructors / accessor trait methods.
use rust_dsymbols::dsets::{DSet, PartialDSet, SimpleDSet};
use rust_dsymbols::dsyms::{DSym, PartialDSym, SimpleDSym};
use serde_json::{json, Value};
use std::collections::VecDeque;

/// op[i][d] for i in 0..=dim, d in 1..=size (index 0 unused, 0 = undefined);
/// v[i][d] for i in 0..dim: branching number of the (i,i+1)-orbit through d (0 = undefined).
#[derive(Clone, Debug, PartialEq, Eq, Hash, PartialOrd, Ord)]
pub struct DS {
    pub dim: usize,
    pub size: usize,
    pub op: Vec<Vec<usize>>,
    pub v: Vec<Vec<usize>>,
}

impl DS {
    pub fn new(dim: usize, size: usize) -> DS {
        DS { dim, size, op: vec![vec![0; size + 1]; dim + 1], v: vec![vec![0; size + 1]; dim] }
    }

    /// from operation tables given as images of 1..=size, all v = 1
    pub fn from_ops(ops: &[Vec<usize>]) -> DS {
        let dim = ops.len() - 1;
        let size = ops[0].len();
        let mut ds = DS::new(dim, size);
        for i in 0..=dim {
            for d in 1..=size {
                ds.op[i][d] = ops[i][d - 1];
            }
        }
        for i in 0..dim {
            for d in 1..=size {
                ds.v[i][d] = 1;
            }
        }
        ds
    }

    pub fn set_op(&mut self, i: usize, d: usize, e: usize) {
        self.op[i][d] = e;
        self.op[i][e] = d;
    }

    pub fn is_complete(&self) -> bool {
        (0..=self.dim).all(|i| (1..=self.size).all(|d| self.op[i][d] != 0)) && (0..self.dim).all(|i| (1..=self.size).all(|d| self.v[i][d] != 0))
    }

    pub fn ops_are_involutions(&self) -> bool {
        (0..=self.dim).all(|i| (1..=self.size).all(|d| {
            let e = self.op[i][d];
            e >= 1 && e <= self.size && self.op[i][e] == d
        }))
    }

    /// operations whose indices differ by more than one commute
    pub fn commutes(&self) -> bool {
        for i in 0..=self.dim {
            for j in (i + 2)..=self.dim {
                for d in 1..=self.size {
                    if self.op[j][self.op[i][d]] != self.op[i][self.op[j][d]] {
                        return false;
                    }
                }
            }
        }
        true
    }

    /// orbit of d under <op_i, op_j> as the cyclic sequence d, ji(d), (ji)^2(d).. plus length of that cycle
    pub fn r(&self, i: usize, j: usize, d: usize) -> usize {
        let mut e = d;
        let mut r = 0;
        loop {
            e = self.op[j][self.op[i][e]];
            r += 1;
            if e == d {
                return r;
            }
        }
    }

    pub fn m(&self, i: usize, d: usize) -> usize {
        self.r(i, i + 1, d) * self.v[i][d]
    }

    /// all chambers of the <i,j>-orbit through d
    pub fn orbit2(&self, i: usize, j: usize, d: usize) -> Vec<usize> {
        self.component(&[i, j], d)
    }

    /// connected component of d under the operations in `idx`, ascending
    pub fn component(&self, idx: &[usize], d: usize) -> Vec<usize> {
        let mut seen = vec![false; self.size + 1];
        let mut q = VecDeque::from([d]);
        seen[d] = true;
        while let Some(x) = q.pop_front() {
            for &i in idx {
                let y = self.op[i][x];
                if y != 0 && !seen[y] {
                    seen[y] = true;
                    q.push_back(y);
                }
            }
        }
        (1..=self.size).filter(|&x| seen[x]).collect()
    }

    /// components under the operations in `idx`, each ascending, ordered by smallest member
    pub fn components(&self, idx: &[usize]) -> Vec<Vec<usize>> {
        let mut seen = vec![false; self.size + 1];
        let mut out = vec![];
        for d in 1..=self.size {
            if !seen[d] {
                let c = self.component(idx, d);
                for &x in &c {
                    seen[x] = true;
                }
                out.push(c);
            }
        }
        out
    }

    pub fn all_indices(&self) -> Vec<usize> {
        (0..=self.dim).collect()
    }

    pub fn is_connected(&self) -> bool {
        self.component(&self.all_indices(), 1).len() == self.size
    }

    /// set v on the whole (i,i+1)-orbit of d
    pub fn set_v(&mut self, i: usize, d: usize, v: usize) {
        for e in self.orbit2(i, i + 1, d) {
            self.v[i][e] = v;
        }
    }

    /// v constant on orbits?
    pub fn v_consistent(&self) -> bool {
        (0..self.dim).all(|i| (1..=self.size).all(|d| self.v[i][self.op[i][d]] == self.v[i][d] && self.v[i][self.op[i + 1][d]] == self.v[i][d]))
    }

    /// new label of old chamber d is perm[d] (perm is a bijection on 1..=size, index 0 unused)
    pub fn renumbered(&self, perm: &[usize]) -> DS {
        let mut out = DS::new(self.dim, self.size);
        for i in 0..=self.dim {
            for d in 1..=self.size {
                out.op[i][perm[d]] = if self.op[i][d] == 0 { 0 } else { perm[self.op[i][d]] };
            }
        }
        for i in 0..self.dim {
            for d in 1..=self.size {
                out.v[i][perm[d]] = self.v[i][d];
            }
        }
        out
    }

    pub fn dual(&self) -> DS {
        let n = self.dim;
        let mut out = DS::new(n, self.size);
        for i in 0..=n {
            out.op[i] = self.op[n - i].clone();
        }
        for i in 0..n {
            out.v[i] = self.v[n - 1 - i].clone();
        }
        out
    }

    /// the D-set with all branching numbers 1
    pub fn dset(&self) -> DS {
        let mut out = self.clone();
        for i in 0..self.dim {
            for d in 1..=self.size {
                out.v[i][d] = 1;
            }
        }
        out
    }

    // ---- text form (own printer for the crate's documented format)

    pub fn text(&self) -> String {
        self.text_with_counts(1, 1)
    }

    /// the text form, abbreviated for messages when it is large (replay files carry the full case)
    pub fn short(&self) -> String {
        let t = self.text();
        if t.len() > 600 {
            format!("{} ... ({} chambers)", &t[..300], self.size)
        } else {
            t
        }
    }

    pub fn text_with_counts(&self, a: usize, b: usize) -> String {
        let mut s = format!("<{}.{}:", a, b);
        if self.dim == 2 {
            s += &format!("{}:", self.size);
        } else {
            s += &format!("{} {}:", self.size, self.dim);
        }
        for i in 0..=self.dim {
            if i > 0 {
                s.push(',');
            }
            let mut first = true;
            for d in 1..=self.size {
                let e = self.op[i][d];
                if e == 0 || e >= d {
                    if !first {
                        s.push(' ');
                    }
                    first = false;
                    s += &e.to_string();
                }
            }
        }
        s.push(':');
        for i in 0..self.dim {
            if i > 0 {
                s.push(',');
            }
            let mut seen = vec![false; self.size + 1];
            let mut first = true;
            for d in 1..=self.size {
                if !seen[d] {
                    for e in self.orbit2(i, i + 1, d) {
                        seen[e] = true;
                    }
                    if !first {
                        s.push(' ');
                    }
                    first = false;
                    s += &self.m(i, d).to_string();
                }
            }
        }
        s.push('>');
        s
    }

    /// the raw lists of a text in the documented format: (size, dim, op lists, degree lists)
    pub fn parse_spec(text: &str) -> Option<(usize, usize, Vec<Vec<usize>>, Vec<Vec<usize>>)> {
        let t = text.trim();
        let t = t.strip_prefix('<')?;
        let t = &t[..t.find('>')?];
        let parts: Vec<&str> = t.split(':').collect();
        if parts.len() != 4 {
            return None;
        }
        let ext: Vec<usize> = parts[1].split_whitespace().map(|x| x.parse().ok()).collect::<Option<_>>()?;
        let (size, dim) = match ext.len() {
            1 => (ext[0], 2),
            2 => (ext[0], ext[1]),
            _ => return None,
        };
        let lists = |p: &str| -> Option<Vec<Vec<usize>>> { p.split(',').map(|l| l.split_whitespace().map(|x| x.parse().ok()).collect::<Option<Vec<usize>>>()).collect() };
        Some((size, dim, lists(parts[2])?, lists(parts[3])?))
    }

    /// own reader for *valid* texts in the documented format (corpus literals); None on anything else
    pub fn parse(text: &str) -> Option<DS> {
        let (size, dim, ops, ms) = DS::parse_spec(text)?;
        if size < 1 || dim < 1 || dim > 64 || size > 1_000_000 || ops.len() != dim + 1 || ms.len() != dim {
            return None;
        }
        let mut ds = DS::new(dim, size);
        for i in 0..=dim {
            let mut k = 0;
            for d in 1..=size {
                if ds.op[i][d] == 0 {
                    let e = *ops[i].get(k)?;
                    k += 1;
                    if e < 1 || e > size || (ds.op[i][e] != 0 && e != d) {
                        return None;
                    }
                    ds.set_op(i, d, e);
                }
            }
            if k != ops[i].len() {
                return None;
            }
        }
        for i in 0..dim {
            let mut k = 0;
            let mut seen = vec![false; size + 1];
            for d in 1..=size {
                if !seen[d] {
                    let orb = ds.orbit2(i, i + 1, d);
                    let m = *ms[i].get(k)?;
                    k += 1;
                    let r = ds.r(i, i + 1, d);
                    if m == 0 || m % r != 0 {
                        return None;
                    }
                    for e in orb {
                        seen[e] = true;
                        ds.v[i][e] = m / r;
                    }
                }
            }
            if k != ms[i].len() {
                return None;
            }
        }
        Some(ds)
    }

    // ---- JSON encoding of cases

    pub fn encode(&self) -> Value {
        json!({
            "text": self.text(),
            "dim": self.dim,
            "ops": self.op.iter().map(|o| o[1..].to_vec()).collect::<Vec<_>>(),
            "v": self.v.iter().map(|o| o[1..].to_vec()).collect::<Vec<_>>(),
        })
    }

    pub fn decode(val: &Value) -> Option<DS> {
        let dim = val.get("dim")?.as_u64()? as usize;
        let ops: Vec<Vec<usize>> = val.get("ops")?.as_array()?.iter().map(crate::util::dec_usizes).collect::<Option<_>>()?;
        let vs: Vec<Vec<usize>> = val.get("v")?.as_array()?.iter().map(crate::util::dec_usizes).collect::<Option<_>>()?;
        if ops.len() != dim + 1 || vs.len() != dim || ops.is_empty() {
            return None;
        }
        let size = ops[0].len();
        if ops.iter().any(|o| o.len() != size) || vs.iter().any(|o| o.len() != size) {
            return None;
        }
        let mut ds = DS::new(dim, size);
        for i in 0..=dim {
            for d in 1..=size {
                ds.op[i][d] = ops[i][d - 1];
            }
        }
        for i in 0..dim {
            for d in 1..=size {
                ds.v[i][d] = vs[i][d - 1];
            }
        }
        Some(ds)
    }

    // ---- conversion to / from the crate's types (constructors and accessors only)

    pub fn to_partial_dset(&self) -> PartialDSet {
        let mut ds = PartialDSet::new(self.size, self.dim);
        for i in 0..=self.dim {
            for d in 1..=self.size {
                let e = self.op[i][d];
                if e >= d {
                    ds.set(i, d, e);
                }
            }
        }
        ds
    }

    pub fn to_simple_dset(&self) -> SimpleDSet {
        SimpleDSet::from(self.to_partial_dset())
    }

    /// the crate's PartialDSym for this symbol. For a quarter of the symbols (chosen by a hash of the
    /// symbol, so that a case always takes the same route) the value has a HISTORY: it is first given
    /// other branching numbers, read in every way, and only then re-assigned through set_v.
    pub fn to_partial(&self) -> PartialDSym {
        if crate::util::h64(self) % 4 == 0 {
            self.to_partial_with_history()
        } else {
            self.to_partial_fresh()
        }
    }

    pub fn to_partial_fresh(&self) -> PartialDSym {
        let mut sym: PartialDSym = self.to_partial_dset().into();
        for i in 0..self.dim {
            for d in 1..=self.size {
                sym.set_v(i, d, self.v[i][d]);
            }
        }
        sym
    }

    /// the same value reached through a history: other branching numbers first (v + 1, or left
    /// undefined on every third chamber), every query once, then the final numbers through set_v
    pub fn to_partial_with_history(&self) -> PartialDSym {
        let mut sym: PartialDSym = self.to_partial_dset().into();
        for i in 0..self.dim {
            for d in 1..=self.size {
                if (d + i) % 3 != 0 {
                    sym.set_v(i, d, self.v[i][d] + 1);
                }
            }
        }
        let _ = crate::runner::guarded(|| {
            let mut acc = 0usize;
            let _ = format!("{}", sym);
            for i in 0..=self.dim {
                for j in 0..=self.dim {
                    for d in 1..=self.size {
                        acc += sym.m(i, j, d).unwrap_or(0) + sym.v(i, j, d).unwrap_or(0) + sym.r(i, j, d).unwrap_or(0);
                    }
                }
            }
            let _ = sym.is_complete();
            let _ = sym.is_minimal();
            let _ = sym.automorphisms();
            let _ = sym.clone();
            acc
        });
        // the final numbers: once per orbit, at its first chamber (set_v is an operation on the orbit)
        for i in 0..self.dim {
            let mut seen = vec![false; self.size + 1];
            for d in 1..=self.size {
                if !seen[d] {
                    for e in self.orbit2(i, i + 1, d) {
                        seen[e] = true;
                    }
                    sym.set_v(i, d, self.v[i][d]);
                }
            }
        }
        sym
    }

    /// the same symbol as a PartialDSym assembled with the public `from_fields`, with the 2-orbits
    /// numbered in REVERSE order of what the crate's own constructors produce (a consistent numbering:
    /// the orbit tables are permuted accordingly)
    pub fn to_partial_from_fields_reversed(&self, set_count: usize) -> PartialDSym {
        let set = SimpleDSet::from_partial(self.to_partial_dset(), set_count);
        // own orbit walk, in the crate's order: index by index, chambers ascending
        let mut index = vec![vec![0usize; self.size + 1]; self.dim];
        let mut rs: Vec<usize> = vec![];
        let mut vs: Vec<usize> = vec![];
        for i in 0..self.dim {
            let mut seen = vec![false; self.size + 1];
            for d in 1..=self.size {
                if !seen[d] {
                    let nr = rs.len();
                    for e in self.orbit2(i, i + 1, d) {
                        seen[e] = true;
                        index[i][e] = nr;
                    }
                    rs.push(self.r(i, i + 1, d));
                    vs.push(self.v[i][d]);
                }
            }
        }
        let n = rs.len();
        for i in 0..self.dim {
            for d in 1..=self.size {
                index[i][d] = n - 1 - index[i][d];
            }
        }
        rs.reverse();
        vs.reverse();
        PartialDSym::from_fields(set, index, rs, vs)
    }

    pub fn to_simple(&self) -> SimpleDSym {
        SimpleDSym::from(self.to_partial())
    }

    pub fn from_dset<T: DSet>(t: &T) -> DS {
        let mut ds = DS::new(t.dim(), t.size());
        for i in 0..=t.dim() {
            for d in 1..=t.size() {
                ds.op[i][d] = t.op(i, d).unwrap_or(0);
            }
        }
        for i in 0..t.dim() {
            for d in 1..=t.size() {
                ds.v[i][d] = 1;
            }
        }
        ds
    }

    pub fn from_dsym<T: DSym>(t: &T) -> DS {
        let mut ds = DS::from_dset(t);
        for i in 0..t.dim() {
            for d in 1..=t.size() {
                ds.v[i][d] = t.v(i, i + 1, d).unwrap_or(0);
            }
        }
        ds
    }
}

/// permutation of 1..=n from a list of transpositions (shrinks towards the identity)
pub fn perm_from_swaps(n: usize, swaps: &[(u32, u32)]) -> Vec<usize> {
    let mut p: Vec<usize> = (0..=n).collect();
    if n >= 2 {
        for &(a, b) in swaps {
            let x = 1 + crate::runner::pick_index(a, n);
            let y = 1 + crate::runner::pick_index(b, n);
            p.swap(x, y);
        }
    }
    p
}
