//! Byte-level entry points for the libFuzzer targets (/verif/fuzz): the bytes are decoded into the
//! same structured cases as the proptest sub-checks and judged by the same oracle functions.
use crate::props::{c01, c10, c20};
use crate::runner::*;
use serde_json::{json, Value};

fn run<C: Case>(sub: &Sub<C>, case: &C) -> Result<(), String> {
    static HOOK: std::sync::Once = std::sync::Once::new();
    HOOK.call_once(install_panic_hook);
    let mut obs = Obs::default();
    match guarded(|| (sub.check)(case, &mut obs)) {
        Ok(Ok(())) => Ok(()),
        // an internal assertion of the harness is never a violation
        Ok(Err(m)) if m.starts_with("harness:") => Ok(()),
        Ok(Err(m)) => Err(m),
        Err(p) if sub.panic_discards.iter().any(|d| p.contains(d)) => Ok(()),
        Err(p) => Err(format!("panic: {}", p)),
    }
}

pub fn decode_c01(data: &[u8]) -> c01::TextCase {
    c01::TextCase { text: String::from_utf8_lossy(data).into_owned(), kind: "soup".into() }
}

pub fn decode_c10(data: &[u8]) -> c10::History {
    let mut ops = vec![];
    let mut i = 0;
    let next = |i: &mut usize| -> Option<u8> {
        let b = data.get(*i).copied();
        *i += 1;
        b
    };
    while ops.len() < 40 {
        let code = match next(&mut i) {
            Some(c) => c,
            None => break,
        };
        let reg = |b: Option<u8>| b.map(|x| (x % 3) as usize);
        let op = (|| -> Option<c10::Op> {
            Some(match code % 9 {
                0 => {
                    let r = reg(next(&mut i))?;
                    let len = (next(&mut i)? % 10) as usize;
                    let mut w = vec![];
                    for _ in 0..len {
                        w.push((next(&mut i)? % 7) as i64 - 3);
                    }
                    c10::Op::New(r, w)
                }
                1 => c10::Op::Clone(reg(next(&mut i))?, reg(next(&mut i))?),
                2 => c10::Op::Mul(reg(next(&mut i))?, reg(next(&mut i))?, reg(next(&mut i))?, next(&mut i)? % 4),
                3 => c10::Op::MulLetter(reg(next(&mut i))?, reg(next(&mut i))?, (next(&mut i)? % 7) as i64 - 3, next(&mut i)? % 2 == 0),
                4 => c10::Op::MulAssign(reg(next(&mut i))?, reg(next(&mut i))?),
                5 => c10::Op::Inverse(reg(next(&mut i))?, reg(next(&mut i))?),
                6 => c10::Op::Pow(reg(next(&mut i))?, reg(next(&mut i))?, (next(&mut i)? % 17) as i64 - 8),
                7 => c10::Op::Comm(reg(next(&mut i))?, reg(next(&mut i))?, reg(next(&mut i))?),
                _ => c10::Op::Rot(reg(next(&mut i))?, reg(next(&mut i))?, (next(&mut i)? % 41) as i64 - 20),
            })
        })();
        match op {
            Some(o) => ops.push(o),
            None => break,
        }
    }
    c10::History(ops)
}

pub fn decode_c20(data: &[u8]) -> c20::Hist {
    let b = |k: usize| data.get(k).copied().unwrap_or(0);
    let kind = b(0) % 4;
    let observe = b(1) % 3;
    let universe = [4usize, 6, 12, 40][(b(2) % 4) as usize];
    let mut ops = vec![];
    let mut i = 3;
    while i + 2 < data.len() && ops.len() < 200 {
        let (c, x, y) = (data[i], data[i + 1] as usize, data[i + 2] as usize);
        i += 3;
        let inst = (c as usize / 8) % 3;
        ops.push(match c % 8 {
            0..=3 => c20::UOp::Unite(inst, x % universe, y % universe),
            4 | 5 => c20::UOp::Find(inst, x % universe),
            6 => {
                let len = y % (universe + 1);
                c20::UOp::Classes(inst, (0..len).map(|k| (x + k * 7) % universe).collect())
            }
            _ => c20::UOp::Clone(x % 3, y % 3),
        });
    }
    c20::Hist { kind, observe, universe, ops }
}

pub fn c01_parse(data: &[u8]) -> Result<(), String> {
    run(&c01::SUB_PARSE, &decode_c01(data))
}
pub fn c10_words(data: &[u8]) -> Result<(), String> {
    run(&c10::SUB_HISTORY, &decode_c10(data))
}
pub fn c20_partition(data: &[u8]) -> Result<(), String> {
    run(&c20::SUB_HISTORY, &decode_c20(data))
}

/// replay document for a libFuzzer artifact of the given property
pub fn artifact_to_replay(prop: &str, data: &[u8]) -> Option<Value> {
    let (sub, case) = match prop {
        "C01" => ("parse_total", decode_c01(data).encode()),
        "C10" => ("history", decode_c10(data).encode()),
        "C20" => ("history", decode_c20(data).encode()),
        _ => return None,
    };
    Some(json!({"property": prop, "subcheck": sub, "case": case, "observed": "libFuzzer crash artifact (decoded)", "artifact_bytes": data}))
}

pub fn target_of(prop: &str) -> Option<&'static str> {
    match prop {
        "C01" => Some("c01_parse"),
        "C10" => Some("c10_words"),
        "C20" => Some("c20_partition"),
        _ => None,
    }
}

/// seed inputs for a target (valid cases, so that the fuzzer starts beyond the first validation)
pub fn seed_corpus(prop: &str) -> Vec<Vec<u8>> {
    match prop {
        "C01" => {
            let mut v: Vec<Vec<u8>> = crate::props::c09::corpus_lit().iter().map(|s| s.text().into_bytes()).collect();
            for n in 1..=4 {
                for ds in crate::gen::dsets::dsets_of_size(2, n).into_iter().take(6) {
                    v.push(ds.text().into_bytes());
                }
            }
            v.push(b"<1.1:2:2,2,2:0,3>".to_vec());
            v.push(b" < 10.8: 2 3:1 2 , 1 2,  1 2  ,2 :3 3 , 3   4,4 >  ".to_vec());
            v
        }
        "C10" => (0..16u8).map(|k| (0..48u8).map(|j| j.wrapping_mul(37).wrapping_add(k.wrapping_mul(11))).collect()).collect(),
        "C20" => (0..16u8).map(|k| (0..90u8).map(|j| j.wrapping_mul(29).wrapping_add(k.wrapping_mul(7))).collect()).collect(),
        _ => vec![],
    }
}

pub const C01_DICT: &str = "\"<\"\n\">\"\n\":\"\n\",\"\n\".\"\n\" \"\n\"1.1\"\n\"0\"\n\"1\"\n\"2\"\n\"3\"\n\"4\"\n\"6\"\n\"12\"\n\"18446744073709551615\"\n\"9223372036854775808\"\n\"4000000000000000000\"\n";
