//! Byte-level entry points for the libFuzzer targets (/verif/fuzz): the bytes are decoded into the
//! same structured cases as the proptest sub-checks and judged by the same oracle functions.
use crate::props::{c01, c10, c14, c18, c19, c20};
use crate::runner::*;
use serde_json::{json, Value};

fn run<C: Case>(sub: &Sub<C>, case: &C) -> Result<(), String> {
    static HOOK: std::sync::Once = std::sync::Once::new();
    HOOK.call_once(install_panic_hook);
    let mut obs = Obs::default();
    match guarded(|| (sub.check)(case, &mut obs)) {
        Ok(Ok(())) => Ok(()),
        // an internal assertion of the harness is never a violation
        Ok(Err(m)) if m.starts_with("harness:") => Ok(()),
        Ok(Err(m)) => Err(m),
        Err(p) if sub.panic_discards.iter().any(|d| p.contains(d)) => Ok(()),
        Err(p) => Err(format!("panic: {}", p)),
    }
}

pub fn decode_c01(data: &[u8]) -> c01::TextCase {
    c01::TextCase { text: String::from_utf8_lossy(data).into_owned(), kind: "soup".into() }
}

pub fn decode_c10(data: &[u8]) -> c10::History {
    let mut ops = vec![];
    let mut i = 0;
    let next = |i: &mut usize| -> Option<u8> {
        let b = data.get(*i).copied();
        *i += 1;
        b
    };
    while ops.len() < 40 {
        let code = match next(&mut i) {
            Some(c) => c,
            None => break,
        };
        let reg = |b: Option<u8>| b.map(|x| (x % 3) as usize);
        let op = (|| -> Option<c10::Op> {
            Some(match code % 9 {
                0 => {
                    let r = reg(next(&mut i))?;
                    let len = (next(&mut i)? % 10) as usize;
                    let mut w = vec![];
                    for _ in 0..len {
                        w.push((next(&mut i)? % 7) as i64 - 3);
                    }
                    c10::Op::New(r, w)
                }
                1 => c10::Op::Clone(reg(next(&mut i))?, reg(next(&mut i))?),
                2 => c10::Op::Mul(reg(next(&mut i))?, reg(next(&mut i))?, reg(next(&mut i))?, next(&mut i)? % 4),
                3 => c10::Op::MulLetter(reg(next(&mut i))?, reg(next(&mut i))?, (next(&mut i)? % 7) as i64 - 3, next(&mut i)? % 2 == 0),
                4 => c10::Op::MulAssign(reg(next(&mut i))?, reg(next(&mut i))?),
                5 => c10::Op::Inverse(reg(next(&mut i))?, reg(next(&mut i))?),
                6 => c10::Op::Pow(reg(next(&mut i))?, reg(next(&mut i))?, (next(&mut i)? % 17) as i64 - 8),
                7 => c10::Op::Comm(reg(next(&mut i))?, reg(next(&mut i))?, reg(next(&mut i))?),
                _ => c10::Op::Rot(reg(next(&mut i))?, reg(next(&mut i))?, (next(&mut i)? % 41) as i64 - 20),
            })
        })();
        match op {
            Some(o) => ops.push(o),
            None => break,
        }
    }
    c10::History(ops)
}

pub fn decode_c20(data: &[u8]) -> c20::Hist {
    let b = |k: usize| data.get(k).copied().unwrap_or(0);
    let kind = b(0) % 4;
    let observe = b(1) % 3;
    let universe = [4usize, 6, 12, 40, 100, 300][(b(2) % 6) as usize];
    let universe = if kind == 0 { universe.min(200) } else { universe };
    let mut ops = vec![];
    let mut i = 3;
    while i + 2 < data.len() && ops.len() < 200 {
        let (c, x, y) = (data[i], data[i + 1] as usize, data[i + 2] as usize);
        i += 3;
        let inst = (c as usize / 8) % 3;
        ops.push(match c % 8 {
            0..=3 => c20::UOp::Unite(inst, x % universe, y % universe),
            4 | 5 => c20::UOp::Find(inst, x % universe),
            6 => {
                let len = y % (universe + 1);
                c20::UOp::Classes(inst, (0..len).map(|k| (x + k * 7) % universe).collect())
            }
            _ => c20::UOp::Clone(x % 3, y % 3),
        });
    }
    c20::Hist { kind, observe, universe, ops }
}

/// C19: entry point, vertex count 2..=10, source, sink, then edges as byte pairs
pub fn decode_c19(data: &[u8]) -> c19::CutCase {
    let b = |k: usize| data.get(k).copied().unwrap_or(0) as usize;
    let kind = (b(0) % 4) as u8;
    let n = 2 + b(1) % 9;
    let s = b(2) % n;
    let mut t = b(3) % n;
    if t == s {
        t = (s + 1) % n;
    }
    let mut edges = vec![];
    let mut i = 4;
    while i + 1 < data.len() && edges.len() < 28 {
        let (a, c) = (data[i] as usize % n, data[i + 1] as usize % n);
        i += 2;
        if a != c && !edges.contains(&(a, c)) {
            edges.push((a, c));
        }
    }
    c19::CutCase { kind, edges, s, t }
}

/// C18: backend, representation, shape, then entries as (value byte, scale byte) pairs
pub fn decode_c18(data: &[u8]) -> c18::MatCase {
    let b = |k: usize| data.get(k).copied().unwrap_or(0);
    let backend = b(0) % 7;
    let twin = b(1) & 1 == 1;
    let rows = 1 + (b(2) % 6) as usize;
    let cols = 1 + (b(3) % 6) as usize;
    let k = 1 + (b(4) % 3) as usize;
    const SCALE: [i64; 6] = [1, 1, 1, 1, 97, 1_000_003];
    let entry = |pos: usize| -> i64 {
        let v = b(5 + 2 * pos) as i8 as i64;
        let sc = b(6 + 2 * pos);
        // small entries most of the time; a planted zero keeps rank-deficient shapes reachable
        (v % 8) * SCALE[(sc % 6) as usize] + if sc >= 250 { v } else { 0 }
    };
    let a: Vec<i64> = (0..rows * cols).map(entry).collect();
    let bb: Vec<i64> = (0..rows * k).map(|j| entry(rows * cols + j)).collect();
    c18::MatCase { backend, twin, rows, cols, a, k, b: bb }
}

/// C14: generator count, relator count, relators, then the recipe for the equivalent presentation
pub fn decode_c14(data: &[u8]) -> c14::Pres {
    let mut i = 0;
    let mut next = || {
        let x = data.get(i).copied().unwrap_or(0);
        i += 1;
        x
    };
    let nr_gens = 1 + (next() % 5) as usize;
    let nrels = (next() % 6) as usize;
    let mut rels = vec![];
    for _ in 0..nrels {
        let len = (next() % 10) as usize;
        let mut w = vec![];
        for _ in 0..len {
            let x = next() as usize % (2 * nr_gens);
            w.push(if x < nr_gens { x as i64 + 1 } else { -((x - nr_gens) as i64 + 1) });
        }
        rels.push(w);
    }
    let twist = (0..nrels).map(|_| { let (a, c, l) = (next(), next(), next()); (a % 8, c & 1 == 1, (l as usize % (2 * nr_gens + 1)) as i64 - nr_gens as i64) }).collect();
    let order = (0..2).map(|_| (next(), next())).collect();
    let gen_swaps = (0..2).map(|_| (next(), next())).collect();
    let gen_flip = next() as u32;
    let extra = if nrels > 0 { vec![(next(), next(), next() & 1 == 1)] } else { vec![] };
    c14::Pres { nr_gens, rels, twist, order, gen_swaps, gen_flip, extra }
}

pub fn c19_cuts(data: &[u8]) -> Result<(), String> {
    run(&c19::SUB_CUT, &decode_c19(data))
}
pub fn c18_matrix(data: &[u8]) -> Result<(), String> {
    run(&c18::SUB_MATRIX, &decode_c18(data))
}
pub fn c14_invariants(data: &[u8]) -> Result<(), String> {
    run(&c14::SUB_PRES, &decode_c14(data))
}

pub fn c01_parse(data: &[u8]) -> Result<(), String> {
    run(&c01::SUB_PARSE, &decode_c01(data))
}
pub fn c10_words(data: &[u8]) -> Result<(), String> {
    run(&c10::SUB_HISTORY, &decode_c10(data))
}
pub fn c20_partition(data: &[u8]) -> Result<(), String> {
    run(&c20::SUB_HISTORY, &decode_c20(data))
}

/// replay document for a libFuzzer artifact of the given property
pub fn artifact_to_replay(prop: &str, data: &[u8]) -> Option<Value> {
    let (sub, case) = match prop {
        "C01" => ("parse_total", decode_c01(data).encode()),
        "C10" => ("history", decode_c10(data).encode()),
        "C20" => ("history", decode_c20(data).encode()),
        "C19" => ("cut", decode_c19(data).encode()),
        "C18" => ("matrix", decode_c18(data).encode()),
        "C14" => ("invariants", decode_c14(data).encode()),
        _ => return None,
    };
    Some(json!({"property": prop, "subcheck": sub, "case": case, "observed": "libFuzzer crash artifact (decoded)", "artifact_bytes": data}))
}

pub fn target_of(prop: &str) -> Option<&'static str> {
    match prop {
        "C01" => Some("c01_parse"),
        "C10" => Some("c10_words"),
        "C20" => Some("c20_partition"),
        "C19" => Some("c19_cuts"),
        "C18" => Some("c18_matrix"),
        "C14" => Some("c14_invariants"),
        _ => None,
    }
}

/// seed inputs for a target (valid cases, so that the fuzzer starts beyond the first validation)
pub fn seed_corpus(prop: &str) -> Vec<Vec<u8>> {
    match prop {
        "C01" => {
            let mut v: Vec<Vec<u8>> = crate::props::c09::corpus_lit().iter().map(|s| s.text().into_bytes()).collect();
            for n in 1..=4 {
                for ds in crate::gen::dsets::dsets_of_size(2, n).into_iter().take(6) {
                    v.push(ds.text().into_bytes());
                }
            }
            v.push(b"<1.1:2:2,2,2:0,3>".to_vec());
            v.push(b" < 10.8: 2 3:1 2 , 1 2,  1 2  ,2 :3 3 , 3   4,4 >  ".to_vec());
            v
        }
        "C10" => (0..16u8).map(|k| (0..48u8).map(|j| j.wrapping_mul(37).wrapping_add(k.wrapping_mul(11))).collect()).collect(),
        "C20" => (0..16u8).map(|k| (0..90u8).map(|j| j.wrapping_mul(29).wrapping_add(k.wrapping_mul(7))).collect()).collect(),
        "C19" => (0..16u8).map(|k| (0..40u8).map(|j| j.wrapping_mul(31).wrapping_add(k.wrapping_mul(13))).collect()).collect(),
        "C18" => (0..16u8).map(|k| (0..96u8).map(|j| j.wrapping_mul(41).wrapping_add(k.wrapping_mul(17))).collect()).collect(),
        "C14" => (0..16u8).map(|k| (0..80u8).map(|j| j.wrapping_mul(23).wrapping_add(k.wrapping_mul(19))).collect()).collect(),
        _ => vec![],
    }
}

pub const C01_DICT: &str = "\"<\"\n\">\"\n\":\"\n\",\"\n\".\"\n\" \"\n\"1.1\"\n\"0\"\n\"1\"\n\"2\"\n\"3\"\n\"4\"\n\"6\"\n\"12\"\n\"18446744073709551615\"\n\"9223372036854775808\"\n\"4000000000000000000\"\n";
