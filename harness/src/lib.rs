//! dsv — property-based verification harness for odf/rust_dsymbols
pub mod runner;
pub mod util;
pub mod oracle;
pub mod model;
pub mod gen;
pub mod props;
pub mod fuzz;
