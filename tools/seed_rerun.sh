#!/bin/bash
# usage: tools/seed_rerun.sh [seed names...]   (default: all of /verif/seeded/*/)
# Applies every kept seeded change to /repo in turn, runs the quick check of its property, reverts it, and
# writes seeded/RERUN.md. Needs a clean /repo; never leaves a patch applied.
cd /verif
if [ -n "$(git -C /repo status --porcelain --untracked-files=no)" ]; then echo "/repo dirty"; exit 2; fi
names="$@"; [ -z "$names" ] && names=$(ls seeded | grep -E '^C[0-9]+[a-z]?$')
out=seeded/RERUN.md
echo "# Re-run of all kept seeded changes against the checks as committed ($(git log --format=%h -1), /repo $(git -C /repo log --format=%h -1))" > $out
echo >> $out; echo "| seed | property | quick check | seconds | first line |" >> $out; echo "|---|---|---|---|---|" >> $out
for n in $names; do
  p=$(python3 -c "import json;print(json.load(open('seeded/$n/meta.json'))['property'])")
  git -C /repo apply /verif/seeded/$n/patch.diff || { echo "| $n | $p | patch does not apply | | |" >> $out; continue; }
  t0=$(date +%s); o=$(./check $p quick 2>&1); code=$?; t1=$(date +%s)
  git -C /repo checkout -- .
  line=$(echo "$o" | grep -E "FAILED" | head -1 | cut -c1-160 | tr '|' '/')
  case $code in 1) r="exit 1 (caught)";; 0) r="exit 0 (MISSED)";; *) r="exit $code (inconclusive)";; esac
  echo "| $n | $p | $r | $((t1-t0)) | $line |" >> $out
  echo "$n $p $r $((t1-t0))s"
done
rm -f replays/*.json; git checkout -- evidence
