#!/usr/bin/env python3
"""Sensitivity helper (development only): apply one textual mutation to /repo, run checks, revert.
usage: mut.py <Cxx[,Cyy..]> <file relative to /repo> <old> <new> [tier] [occurrence-index]
       mut.py <Cxx[,..]> --patch <diff file> [tier]
Prints one line per check: MUTANT <prop> exit=<code> <first VIOLATION line or summary>."""
import subprocess, sys, os, time

def run(cmd, **kw):
    return subprocess.run(cmd, shell=True, capture_output=True, text=True, **kw)

def main():
    props = sys.argv[1].split(",")
    dirty = run("git -C /repo status --porcelain --untracked-files=no").stdout.strip()
    if dirty:
        print("refusing: /repo has uncommitted changes:\n" + dirty); sys.exit(2)
    try:
        if sys.argv[2] == "--patch":
            tier = sys.argv[4] if len(sys.argv) > 4 else "quick"
            r = run(f"git -C /repo apply {sys.argv[3]}")
            if r.returncode != 0:
                print("patch does not apply:", r.stderr); sys.exit(2)
        else:
            f, old, new = sys.argv[2], sys.argv[3], sys.argv[4]
            tier = sys.argv[5] if len(sys.argv) > 5 else "quick"
            occ = int(sys.argv[6]) if len(sys.argv) > 6 else None
            p = os.path.join("/repo", f)
            s = open(p, newline="").read()
            n = s.count(old)
            if n == 0 or (n > 1 and occ is None):
                print(f"old text occurs {n} times"); sys.exit(2)
            if occ is None:
                s = s.replace(old, new)
            else:
                parts = s.split(old)
                s = old.join(parts[:occ+1]) + new + old.join(parts[occ+1:])
            open(p, "w", newline="").write(s)
        for pr in props:
            t = time.time()
            r = run(f"cd /verif && ./check {pr} {tier}")
            lines = [l for l in r.stdout.splitlines() if l.startswith(("VIOLATION", "INCONCLUSIVE", "KNOWN-FINDING"))]
            fails = [l for l in r.stderr.splitlines() if "FAILED" in l]
            print(f"MUTANT {pr} exit={r.returncode} {time.time()-t:.0f}s {lines[:2]} {fails[:1]}")
    finally:
        run("git -C /repo checkout -- .")
        # touch nothing else; cargo notices the mtime change and rebuilds on the next check

if __name__ == "__main__":
    main()
