#!/usr/bin/env python3
"""usage: tools/seed_tasks.py <suffix> <kinds, e.g. EFGH or ABCD> [property ...]
Creates one scratch worktree /tmp/seedwt-<Cxx><suffix> of /repo and one task file /tmp/seed-<Cxx><suffix>/TASK.md per
property for a round of independently seeded changes (DESIGN 8.4). The agent gets the text of the property, the kind
of trigger (rotated over the properties) and nothing from /verif's checks. Afterwards: tools/seed_confirm.sh,
tools/seed_rerun_lanes.py, tools/seed_record_batch.py; remove the worktrees (git -C /repo worktree remove --force)."""
import json, os, subprocess, sys
KINDS = {
 'A': "HISTORY. The change must only show for a value, or across calls, with a history: a cache or lazily computed field that is not invalidated, scratch state kept between calls (thread-local, static, a reused buffer), a value that was mutated through its public API after it was first used, an iterator or table object that is used twice. A fresh value used once must stay correct.",
 'B': "TWO COOPERATING EDITS. Make two edits at different sites, each of which is behaviour-preserving on its own; only together do they break the property, and only for inputs that reach both.",
 'C': "UNUSUAL BUT LEGAL ENTRY POINT OR INPUT SHAPE. Wrong only when the functionality is reached through a public entry point or argument form that the crate's own callers and tests do not use, or for a legal input shape nobody writes by hand.",
 'D': "SIZE OR VALUE THRESHOLD. Wrong only beyond a threshold that ordinary examples stay below (fixed-width field, bit set, fixed-size buffer, wrapping counter, narrowed index type), reachable in well under a second of computation.",
 'E': "ORDER / NUMBERING DEPENDENCE. Wrong only for inputs whose elements arrive in a particular order or numbering; correct for the natural numbering that hand-written examples and generators produce.",
 'F': "COMPOSITION OF PUBLIC FUNCTIONS. Shows only when the output of one public function of the crate is fed into another; either function alone on hand-built inputs looks fine.",
 'G': "DEGENERATE / BOUNDARY STRUCTURE. Wrong only on legal but degenerate shapes (size 1 or 2, extreme dimensions, disconnected inputs, identity operations, empty lists, duplicated entries, the trivial group, isolated vertices, zero rows or columns).",
 'H': "ARITHMETIC EDGE. Wrong only for particular numeric values (negative numbers, unusual gcd / remainder / sign, a specific residue or congruence class, an off-by-one that matters only when two quantities are equal).",
}
suffix, rot = sys.argv[1], list(sys.argv[2])
only = sys.argv[3:]
for n, l in enumerate(open('/verif/properties.jsonl')):
    p = json.loads(l); pid = p['id']
    if only and pid not in only: continue
    name = pid + suffix; wt = f'/tmp/seedwt-{name}'; out = f'/tmp/seed-{name}'
    os.makedirs(out, exist_ok=True)
    if not os.path.isdir(wt):
        subprocess.check_call(['git', '-C', '/repo', 'worktree', 'add', '--detach', '-q', wt, 'HEAD'])
    a = p['anchors']; kind = KINDS[rot[n % len(rot)]]
    open(f'{out}/TASK.md', 'w').write(f"""# Task: seed one property-breaking change into a Rust library (mutation for a test-adequacy study)

Work ONLY inside the git worktree `{wt}` (crate `rust_dsymbols`) and write results to `{out}/`. Never touch /repo or
/verif. No network: pass `--offline` to cargo. Never use `git stash` (shared between worktrees).

## The property
**{pid} - {p['title']}**

{p['statement']}

Anchored in: {', '.join(a['files'])}. Mechanisms: {'; '.join(m['name'] + ' (' + m['where'] + ')' for m in a['mechanism'])}.
Observed through: {', '.join(a['observe_at'])}.

## What to produce
A source change under `src/` (non-test code) such that (1) `cd {wt} && cargo test --offline --lib` still shows 168 passed,
0 failed; (2) the property is violated for some inputs (a real wrong result, or a panic where it forbids one); (3) the
violation needs something specific to manifest: **{kind}** It should look like something a maintainer could have written
(optimisation, refactoring, cache, fast path), no magic constants, prefer a silent wrong result; (4) a demonstration
`{out}/seed_demo.rs`: a cargo integration test (copied to `{wt}/tests/seed_demo.rs`, run with `cargo test --offline --test
seed_demo`) using only the public API, one `#[test]` that FAILS with the change and PASSES without it, checking the property
by an independent argument. Check "without" with `git diff -- src > {out}/patch.diff && git apply -R {out}/patch.diff`, then
`git apply {out}/patch.diff` again.

Deliver in `{out}/`: `patch.diff` (`git diff -- src`), `seed_demo.rs`, `notes.md` (which clause breaks, the change, exactly
what is needed for it to manifest, measured rates on ordinary inputs vs inputs with the trigger). Time box 15-25 minutes.
Final message: files changed, the trigger, and the three test-result lines.
""")
    print(name, rot[n % len(rot)])
