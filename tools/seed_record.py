#!/usr/bin/env python3
"""usage: tools/seed_record.py <name> <property> <breaks> <change> <needs> <detected_by> <results-row-detected>
writes /verif/seeded/<name>/meta.json from eval.txt and appends a row to seeded/RESULTS.md"""
import json, sys, os
name, prop, breaks, change, needs, detected, row = sys.argv[1:8]
d = f"/verif/seeded/{name}"
ran = [l.rstrip() for l in open(f"{d}/eval.txt") if l.strip()]
demo_with = next((l for l in ran if l.startswith("with change, demo")), "")
demo_without = next((l for l in ran if l.startswith("without change, demo")), "")
meta = {
    "property": prop,
    "breaks": breaks,
    "change": change,
    "needs": needs,
    "confirmed": "scratch worktree: 168 library tests pass with the change; " + demo_with + "; " + demo_without,
    "detected_by": detected,
    "ran": ran,
}
json.dump(meta, open(f"{d}/meta.json", "w"), indent=1)
with open("/verif/seeded/RESULTS.md", "a") as f:
    f.write(f"| {name} | {prop} | {needs} | {row} |\n")
print("recorded", name)
