#!/bin/bash
# usage: tools/seed_eval.sh <seed dir name, e.g. C18> <worktree> <property> [more properties]
# 1. confirms in the scratch worktree: 168 tests pass with the change, demo fails with it, passes without it
# 2. copies patch + demo into /verif/seeded/<name>/, applies the patch to /repo, runs the quick checks, reverts
name=$1; wt=$2; shift 2
src=/tmp/seed-$name
dst=/verif/seeded/$name
mkdir -p $dst
cp $src/patch.diff $src/seed_demo.rs $dst/ 2>/dev/null
cp $src/notes.md $dst/agent_notes.md 2>/dev/null
cd $wt || exit 2
git checkout -q -- src; git apply $dst/patch.diff || { echo "patch does not apply in worktree"; exit 2; }
mkdir -p tests; cp $dst/seed_demo.rs tests/seed_demo.rs
echo "== with change: library tests"; a=$(cargo test --offline --lib 2>&1 | grep "test result" | head -1); echo "$a"
echo "== with change: demo"; b=$(cargo test --offline --test seed_demo 2>&1 | grep "test result" | head -1); echo "$b"
git checkout -q -- src
echo "== without change: demo"; c=$(cargo test --offline --test seed_demo 2>&1 | grep "test result" | head -1); echo "$c"
git apply $dst/patch.diff
cd /verif
if [ -n "$(git -C /repo status --porcelain --untracked-files=no)" ]; then echo "/repo dirty"; exit 2; fi
git -C /repo apply $dst/patch.diff || { echo "patch does not apply to /repo"; exit 2; }
res=""
for p in "$@"; do
  t0=$(date +%s); out=$(./check $p quick 2>&1); code=$?; t1=$(date +%s)
  line="check $p quick: exit=$code $((t1-t0))s $(echo "$out" | grep -E '^(VIOLATION|INCONCLUSIVE)' | head -2 | tr '\n' ' ')"
  echo "$line"; echo "$out" | grep -E "FAILED" | head -2
  res="$res$line\n"
done
git -C /repo checkout -- .
printf "with change, library tests: %s\nwith change, demo: %s\nwithout change, demo: %s\n$res" "$a" "$b" "$c" > $dst/eval.txt
