#!/usr/bin/env python3
"""Regenerates /verif/MANIFEST.json from the table below (one entry per built check)."""
import json, os, subprocess

CHECKS = {
 "C10": dict(
   technique="property-based testing: exhaustive small layers + proptest-generated words and stateful operation histories, differential against a free-group model (Vec<i64> + stack reduction)",
   text="Exploration. Every operation on free words is compared letter-for-letter with an independent stack-reduction model: all raw letter sequences over {0,±1,±2,±3} up to length 6 (7 thorough), all ordered pairs of reduced words up to length 4 (5), all triples up to length 2, all reduced words up to length 5 (6) for the relator routines, and proptest-generated long words and register-machine histories (new/clone/all product forms/*=/inverse/power/commutator/rotation) with the model in lockstep after every step. Order axioms (antisymmetry, Equal<=>==, transitivity) are checked on all pairs/triples; the relator representative is checked to be the least element of the model's rotation/inverse set under the crate's own order. Below the bounds the property is decided exhaustively; above them it is sampled.",
   note="Trusted: the harness model of free reduction (30 lines). Letters are kept away from isize::MIN. The specific comparator is not asserted, only that it is a strict total order compatible with ==.",
   design="§4 C10"),
 "C19": dict(
   technique="property-based testing: exhaustive enumeration of all small digraphs + proptest-generated graphs, oracle = brute force over all vertex subsets",
   text="Exploration. All four cut entry points are run on every simple digraph on up to 4 labelled vertices (5 in the thorough tier: 2^20 graphs) with every ordered source/sink pair, on a 1M-sample of the 5-vertex layer in the quick tier, and on proptest-generated graphs with up to 9 vertices / 16 edges (duplicate edges, loops, sparse vertex labels) and layered networks with larger cuts. For each result the harness checks: cut elements are edges/vertices of the graph, no repeats, no source/sink in a vertex cut, removal disconnects (own BFS), size equals the minimum over all vertex subsets (brute force), and inside vertices + source equal the set reachable from the source after removal.",
   note="Trusted: the brute-force subset oracle and BFS of the harness. Vertex cuts are only asked for pairs not joined by an edge (stated precondition; excluded by construction). Isolated source/sink vertices are part of the domain.",
   design="§4 C19"),
 "C20": dict(
   technique="stateful property-based testing: exhaustive short operation histories + proptest-generated long histories against a relabelling model, observed on clones and directly",
   text="Exploration. Histories of unite/find/classes/clone over up to 3 live instances are executed against Partition<u8>, Partition<String>, Partition<(i32,i32)> and IntPartition (sparse indices up to 1000+) with a naive relabelling model per instance. After every step (on a clone, so the original's parent chains stay uncompressed, or directly) or only at the end, every element's representative is checked to lie in its model class, to be shared by the whole class, and to be unchanged since its last observation unless a union touched the class; classes() must equal the model's classes restricted to the query in first-occurrence order. All histories up to length 4 (5 thorough) over a 36-operation alphabet are enumerated; random histories have up to 60 (200) steps over up to 40 elements.",
   note="Trusted: the relabelling model (20 lines). A unite call on two members of one class is conservatively treated as a union involving that class. classes() is only queried with duplicate-free lists.",
   design="§4 C20"),
 "C14": dict(
   technique="property-based testing: exhaustive tiny relation matrices + proptest-generated structured matrices realised as shuffled relator words, oracle = Smith normal form over BigInt (two formulations) plus metamorphic presentation rewrites",
   text="Exploration. abelian_invariants is compared with the invariant factors computed by an independent BigInt Smith-normal-form elimination, which is itself cross-checked against determinantal divisors (gcd of all k x k minors) on every case up to 5x5. Cases: all relation matrices of shapes 1x1..3x3/2x4/4x2 with small entries (about 2.6 M, exhaustive), proptest-generated matrices up to 5x5 (iid, planted invariant factors scrambled by unimodular row/column operations, rank-deficient) realised as relator words with shuffled letters, and sparse presentations with up to 40 generators. Every case also carries a recipe for an equivalent presentation (reorder, invert, rotate, conjugate relators; rename/invert generators; append products of relators; free reduction) whose invariants must be identical.",
   note="Trusted: the two SNF oracles (they must agree on every small case in the same run). Relators only mention generators 1..n (caller precondition). isize overflow panics would be discards (none occur at these sizes).",
   design="§4 C14"),
 "C18": dict(
   technique="property-based testing: exhaustive small matrices/residues + proptest-generated structured matrices over all exact backends, differential against own Gaussian elimination over Q and Z/p, Bareiss determinant and exact rational solving",
   text="Exploration. rank, determinant, null_space, null_space_matrix, solve and inverse of VecMatrix<i64>, VecMatrix<BigRational>, VecMatrix<Z/p> (p in {2, 3, 61, 9999991, 3037000493}) and of the const-generic Matrix twin (14 shapes, reached through the cfg-gated verif_* wrappers) are compared with an independent elimination over the matching field: exact rank, exact determinant value, null space of exactly cols-rank independent annihilated columns, solve sound always and complete over fields (and for unimodular integer matrices), inverse exact or None iff singular, no panic for any shape 1x1..6x6. Matrices: all 1x2..3x2 with entries in -2..2 (exhaustive, every backend), and proptest-generated ones (three magnitude bands up to 1e9, planted dependencies, unimodular products, entries congruent to small numbers modulo the prime incl. exact negative multiples) with consistent and random right-hand sides. Residue classes: all n in [-3P,3P] for small P and random i64 incl. negative multiples for all P, every operator form against i128 arithmetic. The p-adic solver is compared with the exact rational solution on square systems up to 6x6; the periodic-graph client is checked by substituting its positions into the barycentric equations.",
   note="Trusted: the harness's field elimination (Q via BigRational, Z/p via i128) and Bareiss determinant. i64 overflow panics are discards (the harness builds /repo with overflow checks on, as the repository's own debug-profile tests do). f64 is out of scope. Hook: verif_* wrappers on Matrix (cfg odf_rust_dsymbols_verif).",
   design="§4 C18"),
 "C01": dict(
   technique="property-based testing: exhaustive small symbols + proptest-generated symbols and strings (valid texts, token mutations, grammar-derived specs, soups), round-trip and validity oracles on an independent table model; worker process journals each string so aborts are caught",
   text="Exploration. Round trip: every branching assignment (v <= 3) on every D-set of the harness's brute-force enumeration up to a size bound, plus proptest-generated renumbered symbols with large branching numbers and random symbols with up to 300 chambers (multi-digit tokens), printed from PartialDSym and SimpleDSym with arbitrary counters; parse(print(x)) must equal x in dim, size, operations and branching, print(parse(..)) must parse to the same symbol again, and the harness's own reader must read the printed text as x. Totality: valid texts with random whitespace, 1-3 token-level mutations of valid texts (incl. symbols with multi-digit chambers), random specs in the grammar with out-of-range and 64-bit-boundary numbers, real operation lists with arbitrary degree lists, token soups and arbitrary unicode; from_str must return (panics are caught, aborts are caught by the parent through the case journal), and an Ok result must consist of involutions on 1..size with degrees that are multiples of the orbit lengths (own walk), must denote exactly the lists written in the text, and must survive print/parse.",
   note="Trusted: the harness table model and its tokenizer. Equality ignores the <set.sym: counters. Err is always an acceptable answer for texts the harness did not construct to be valid. An Ok result may carry undefined degrees written as 0.",
   design="§4 C01"),
 "C06": dict(
   technique="differential testing against an independent brute-force enumeration (all tuples of involutions, own canonical form), exhaustive up to a size bound; proptest-generated random D-sets for membership beyond it",
   text="Exploration. For every (dimension, max_size) with dim 1 <= 11 (13 thorough), dim 2 <= 9 (11), dim 3 <= 7 (9) the generator's output is validated item by item (complete, involutions, connected, non-adjacent operations commute, numbered 1,2,3,...) and compared per size as a set of isomorphism classes with the harness's own enumeration of all tuples of involutions (operation 0 fixed up to conjugacy, canonical form = minimum BFS code over all start chambers): sound, irredundant and complete below the bound. Beyond the bound (dim 2 up to 13/14 chambers, dim 3 up to 10/11, dim 1 up to 18/22) the output must be pairwise non-isomorphic and consistent between consecutive bounds, and proptest-generated random connected commuting D-sets (built from random involutions and centraliser elements, randomly renumbered) must occur in it.",
   note="Trusted: the brute-force enumerator and BFS canonical code of the harness (its class counts 1,7,3,22,13,70,67,... are cross-checked by the comparison itself).",
   design="§4 C06"),
 "C02": dict(
   technique="property-based testing: exhaustive small symbols + proptest-generated symbols, every query of every representation compared with an independent table model (orbit walks, BFS components, 2-colouring) over all index pairs and chambers incl. out-of-range ones",
   text="Exploration. Each case is a complete commuting D-symbol (any numbering, possibly disconnected) materialised as PartialDSet, SimpleDSet, PartialDSym (built and parsed), SimpleDSym and through as_partial_dsym/as_dset/as_dsym. For all (i,j) in [0,dim+2]^2 and d in [0,size+2]: op, r, v, m equal the model (orbit length by walking, m = r*v), None exactly for out-of-range arguments, symmetric in (i,j), constant on orbits, identical across representations. Predicates (connected, complete, loopless, weakly oriented, oriented, partial_orientation) are compared with own BFS reachability and 2-colouring. traversal/orbit/orbit_reps are checked against the laws: targets are op images, sources occurred earlier as targets, every i-edge of every traversed component exactly once, nothing outside the seeds' components, exactly one root per component which is the earliest seed. Cases: every branching assignment (v <= 2, capped) on every enumerated D-set (dim 1-3) with all index subsets and all short seed lists, random symbols up to 60 chambers with random subsets/seeds, incomplete PartialDSets, and the crate generator's own outputs.",
   note="Trusted: the harness table model. Only commuting symbols are compared (the |i-j|>1 overrides assume it). Traversal order is not asserted. Plain D-sets' m is only probed for None / no panic.",
   design="§4 C02"),
 "C03": dict(
   technique="property-based testing: exhaustive small symbols with fixed and proptest-generated renumberings; two-sided partition comparison against an independent isomorphism oracle (minimum BFS code, cross-checked by pairwise morphism search)",
   text="Exploration. For every branching assignment (v <= 3, capped per D-set) on every connected D-set of the brute-force enumeration (dim 2 size <= 6/7, dim 3 <= 4/5, dim 1 <= 6): canonical(x) is isomorphic to x by the harness's own code, is a fixed point, agrees between PartialDSym and SimpleDSym, and is identical for three fixed renumberings and for proptest-generated ones (transposition lists that shrink to the identity). Both directions of the iff are decided over the whole list at once by comparing the partition by crate canonical form with the partition by own isomorphism code (this covers all pairs); explicit pair checks run on enumeration neighbours (same D-set, different branching), on any conflict, and on random pairs that differ in one branching number. Random connected symbols up to 300 chambers exercise long traversal codes.",
   note="Trusted: own BFS canonical code and morphism search (they must agree on every pair checked). Connected symbols only.",
   design="§4 C03"),
 "C04": dict(
   technique="property-based testing: exhaustive small symbols and harness-built covers (brute force over voltage assignments); oracles = partition refinement (coarsest congruence) and exhaustive morphism search",
   text="Exploration. For every branching assignment (v <= 3, capped) on every connected enumerated D-set (dim 2 size <= 6/7, dim 3 <= 4/5), for proptest-generated renumbered symbols and random symbols up to 40 chambers: |minimal_image(x)| equals the number of classes of the coarsest degree-respecting congruence (own partition refinement), is_minimal(x) iff that number equals the size, a surjective operation-commuting degree-preserving map onto the image exists (own search over all base images), the image has no proper quotient, and the oriented cover and harness-built 2-/3-sheeted covers (own voltage enumeration, validated as coverings) have isomorphic minimal images. automorphisms(x) is compared as a set with the own brute-force automorphism set, and morphism(x, y, e) with own search for every base image e, for y = x, y = the harness-built quotient, y = an unrelated symbol, and x = a renumbered cover of y.",
   note="Trusted: partition refinement, morphism search and cover construction of the harness. Connected symbols only; cover searches are budgeted (over-budget bases are counted, not failed).",
   design="§4 C04"),
 "C07": dict(
   technique="differential testing against an independent exhaustive classification of all branching assignments (exact rational curvature, own orbifold invariants, own D-set automorphisms); exhaustive over all small D-sets, proptest-generated D-sets above",
   text="Exploration. For every connected complete 2D D-set of the harness's brute-force enumeration with <= 8 chambers (10 thorough) and for proptest-generated renumbered D-sets with 8-12 chambers, DSyms is run for the four geometry settings. Every item must live on exactly the given D-set, be complete with all degrees >= 3, have curvature of the requested sign (own exact rational formula), be numbered consecutively and be pairwise non-isomorphic (own canonical code). As sets modulo the D-set's automorphisms (own brute-force automorphisms, canonical = minimal pulled-back v-table) the outputs must equal the harness's classification of ALL assignments vmin <= v <= 8: euclidean = K 0; hyperbolic = K < 0 and K >= 0 after lowering any single v > vmin; spherical = K > 0, v <= 7 and own orbifold invariants (O-ORB2) on the list of 31 good orbifolds carried as data; 'all' must be the disjoint union.",
   note="Trusted: own curvature, orbifold invariants, automorphism search. The bound 8 contains every admissible assignment (argument in DESIGN.md §4 C07); the harness asserts that no euclidean / minimally hyperbolic assignment touches 8 and reports a failed assertion as inconclusive, not as a violation.",
   design="§4 C07"),
 "C08": dict(
   technique="property-based testing: exhaustive small 2D symbols (branching up to 8) + proptest-generated symbols; oracle = own orbifold invariants (boundary cycles, cones, genus), Conway-symbol parser, exact curvature; metamorphic relations under renumbering, dual and covers",
   text="Exploration. For every branching assignment v <= 8 (capped per D-set with a deterministic spread) on every connected enumerated 2D D-set up to 6 chambers (7 thorough), proptest-generated renumbered symbols with branching up to 100 and random 2D symbols up to 60 chambers, in PartialDSym and SimpleDSym: crate curvature = own per-chamber sum = 2 x orbifold Euler characteristic of the parsed orbifold_symbol string; the parsed symbol equals the harness's own invariants (cone multiset, boundary components as corner cycles modulo rotation AND reversal obtained by walking mirror sides, handles / crosscaps from the Euler characteristic and bipartiteness); curvature and normalised symbol are unchanged by renumbering and by dual() (also compared with the own dual), curvature is multiplied by the sheet number on harness-built 2-/3-sheeted covers; is_euclidean / is_hyperbolic / is_spherical follow the sign and the tear-drop / spindle rule.",
   note="Trusted: O-ORB2 of the harness. Connected symbols only; no m >= 3 restriction. Reversal of boundary components is allowed (two neutral mutants that reverse / re-normalise the traced boundary stay green).",
   design="§4 C08"),
 "C11": dict(
   technique="differential and validity testing over a presentation corpus with literature orders: exhaustive short subgroup generator sets + proptest-generated ones; oracle = own tracing of relators / generators plus own reference Todd-Coxeter (HLT) and right-coset bijection in the regular representation",
   text="Exploration. For every corpus group with literature order (cyclic, dihedral, abelian, Coxeter A/B/D/F/H, von Dyck, binary polyhedral, dicyclic, Fibonacci F(2,5), PSL(2,7); up to order 1152 quick / 14400 thorough) crossed with the trivial subgroup, the whole group, ALL sets of at most two reduced words of length <= 2 and proptest-generated sets of up to three words of length <= 8, with the relators presented as given, rotated/inverted, or duplicated, and for all 2x2 sublattices of Z^2 (index |det|): the returned table is complete, every generator column is a permutation inverse to the inverse generator's column, the action is transitive, every relator closes at every row, every subgroup generator closes at row 0, the row count equals [G:H] (|H| = orbit of the identity in the harness's own regular representation, which is only trusted when it has the literature order), every coset representative traced from row 0 ends in its row, the table equals the harness's reference Todd-Coxeter table as a based action, and its rows biject onto the right cosets of H in the regular representation.",
   note="Trusted: reference HLT Todd-Coxeter of the harness (validated against literature orders in the same run) and word tracing. Finite index only; the documented 100000-row limit panic is a discard. Relators are non-empty reduced words (caller precondition).",
   design="§4 C11"),
 "C12": dict(
   technique="differential testing against brute-force enumeration of all transitive homomorphisms into S_k (own canonical form of actions), exhaustive over a presentation corpus x index bounds; oracle cross-checked against literature subgroup-count sequences",
   text="Exploration. For every corpus presentation with <= 4 generators (free, free abelian, surface, Klein bottle, triangle, PSL2(Z), Baumslag-Solitar, Coxeter, polyhedral, dihedral, abelian, dicyclic groups) and every index bound k for which p(k)*(k!)^(gens-1) stays within the budget (3e6 quick, 3e8 thorough; e.g. F2 k <= 7, F3 k <= 5/6, Z^3 k <= 5/6): every listed table is complete, has <= k rows, is a transitive action in which every relator fixes every row; the canonical forms (minimum BFS relabelling over all base points, a complete invariant of the action up to equivalence) are pairwise different and, per index, equal as a set to the canonical forms of ALL transitive homomorphisms into S_j found by brute force (first generator up to cycle type, relator pruning). The brute force itself must reproduce the literature sequences for F1, F2, F3, Z^2, Z^3 and PSL2(Z), else the run is inconclusive.",
   note="Trusted: own permutation brute force and BFS canonical form. Completeness is decided only up to the brute-force bound.",
   design="§4 C12"),
 "C13": dict(
   technique="differential testing of stabiliser / core / intersection routines on all low-index tables of a presentation corpus and every base row; oracles = reference Todd-Coxeter (index and based action), textbook Reidemeister-Schreier, Smith normal form, brute-force subgroup-class counts, own permutation-group closure and product-action orbit",
   text="Exploration. Inputs are valid transitive tables (low-index tables of every corpus group with <= 4 generators up to index 7/8, re-validated by the harness and passed to the crate as plain data), every base row, pairs of tables of one group, and test words (all short reduced words, proptest-generated words of length <= 12 and their kernel powers u^ord(u)). Stabiliser: every returned generator fixes the base row; the subgroup they generate has exactly the table's index and the same based action (reference Todd-Coxeter over the returned words); every returned relator is trivial in G after substitution (exactly, in the regular representation, when G is finite); the presented group has order |G|/rows when finite, and otherwise the same abelianisation (BigInt SNF) and the same numbers of subgroup classes of index 1..3 as the harness's own Reidemeister-Schreier presentation. Core: transitive, relators hold, row count = order of the permutation group generated by the columns (own closure), word fixes all rows of the input <=> fixes row 0 of the core, and then fixes every core row (regular). Intersection: row count = orbit of (0,0) in the product action (own BFS), word fixes its row 0 <=> fixes row 0 of both inputs.",
   note="Trusted: reference Todd-Coxeter, Reidemeister-Schreier, SNF and brute-force class counts of the harness. Isomorphism of infinite stabilisers is decided through invariants only (as the statement says). Row-limit overruns of reference enumerations are skipped and counted.",
   design="§4 C13"),
 "C09": dict(
   technique="property-based testing: exhaustive small symbols + literature corpus + proptest-generated symbols up to 300 chambers; structural oracle computed from the returned edge words alone, group invariants against an independent textbook presentation (own spanning tree), reference Todd-Coxeter, SNF, brute-force subgroup-class counts",
   text="Exploration. For every branching assignment (v <= 4, capped) on every connected enumerated D-set (dim 2 size <= 5/7, dim 3 size <= 3/4), the 20 literature symbols, proptest-generated renumbered symbols and random 2D/3D symbols up to 300 chambers, in PartialDSym and SimpleDSym: generators are numbered 1..g and each sits on its own facet pair carrying exactly its letter; the two sides of every non-mirror facet carry mutually inverse words; every edge word, relator and cone word is freely reduced and uses only letters 1..g; the set of relator classes (modulo conjugation, rotation, inversion; own normal form) equals the set of classes of (word around o)^v_o over ALL 2-orbits o including mirrors, where the word around o is traced by the harness from edge_to_word alone, and the cone set equals {(class of word around o, v_o) : v_o > 1}. Against the textbook presentation built on the harness's own spanning tree: equal abelianisation (BigInt SNF), equal numbers of subgroup classes of index <= 4 by brute force when the Tietze-simplified presentations have <= 3 generators (else index <= 3 by low-index enumeration on both), equal order when reference Todd-Coxeter finishes below 20000 rows, and order 4/K for spherical 2D symbols.",
   note="Trusted: own tracing, relator normal form, textbook presentation, SNF, Todd-Coxeter and permutation brute force. Equality of infinite groups is decided through the invariants the statement names. An irredundant relator list is not demanded (a first version of the check did and was corrected, see DESIGN.md).",
   design="§4 C09"),
}

NOT_YET = "check not built yet in this session (work in progress; see DESIGN.md §4 for its design)"

def main():
    root = os.path.dirname(os.path.dirname(os.path.abspath(__file__)))
    props = [json.loads(l)["id"] for l in open(os.path.join(root, "properties.jsonl"))]
    hooks_commits = []
    try:
        out = subprocess.run(["git", "-C", "/repo", "log", "--format=%H %s"], capture_output=True, text=True).stdout
        hooks_commits = [l.split()[0] for l in out.splitlines() if " verif-hook:" in l or l.split(" ",1)[1].startswith("verif hook")]
    except Exception:
        pass
    checks = []
    for pid in props:
        if pid not in CHECKS: continue
        c = CHECKS[pid]
        checks.append({
            "property_id": pid,
            "quick_cmd": f"./check {pid} quick",
            "thorough_cmd": f"./check {pid} thorough",
            "evidence_file": f"evidence/{pid}.json",
            "replay_cmd_template": f"./check {pid} --replay {{path}}",
            "engine": "dsv",
            "level_claimed": {"category": "exploration", "text": c["text"], "design_ref": c["design"]},
            "level_note": c["note"],
            "technique": c["technique"],
        })
    man = {
        "version": 1,
        "setup_cmd": "cd harness && CARGO_NET_OFFLINE=true cargo build --release --offline",
        "hooks": {
            "guard": "odf_rust_dsymbols_verif",
            "enable": "rustflags = [\"--cfg\", \"odf_rust_dsymbols_verif\"] in /verif/harness/.cargo/config.toml (the harness builds /repo as a path dependency with the cfg on)",
            "baseline_off_cmd": "cd /repo && cargo test --workspace --no-fail-fast --offline",
            "source_commits": hooks_commits,
            "add_only": True,
        },
        "engines": [
            {"name": "dsv", "path": "harness", "serves_properties": [c["property_id"] for c in checks],
             "kind_free_text": "Rust harness crate (lib + bin `check`): exhaustive enumerators and proptest strategies (seeded from VERIF_SEED, shrinking on failure) against independent oracles; parent/worker process split with case journal and watchdog; replay of saved cases"},
        ],
        "checks": checks,
        "not_applicable": [{"property_id": p, "reason": NOT_YET} for p in props if p not in CHECKS],
        "notes": "All checks rebuild the harness (and /repo as its path dependency, with overflow checks and debug assertions on) before running. Exit 0 = held, 1 = VIOLATION line, 2 = inconclusive (build failure / watchdog). known_findings.json lists genuine defects (all repaired by fix: commits so far).",
    }
    with open(os.path.join(root, "MANIFEST.json"), "w") as f:
        json.dump(man, f, indent=1, ensure_ascii=False)
        f.write("\n")

if __name__ == "__main__":
    main()
