#!/usr/bin/env python3
"""Re-run all kept seeded changes against the checks as they are now, in parallel scratch lanes
(/scratch/mut/lane<i>/{repo,verif}: clone of /repo at HEAD + copy of /verif whose harness depends on the
clone). /repo and /verif are not touched. usage: seed_rerun_lanes.py <lanes> [seed ...] -> seeded/RERUN.md"""
import json, os, subprocess, sys, threading, time, queue
ROOT = "/scratch/mut"
def sh(cmd, cwd=None, timeout=3600):
    p = subprocess.run(cmd, shell=True, cwd=cwd, capture_output=True, text=True, timeout=timeout)
    return p.returncode, p.stdout + p.stderr
def sync(i):
    lane = f"{ROOT}/lane{i}"
    os.makedirs(lane, exist_ok=True)
    if not os.path.exists(f"{lane}/repo/.git"):
        sh(f"rm -rf {lane}/repo; git clone -q /repo {lane}/repo")
    sh("git checkout -q -- . ; git fetch -q origin; git reset -q --hard origin/main", cwd=f"{lane}/repo")
    sh(f"rsync -a --delete --exclude .git --exclude harness/target --exclude fuzz/target --exclude fuzz/corpus --exclude fuzz/artifacts --exclude 'replays/*.json' /verif/ {lane}/verif/")
    sh(f"sed -i 's#path = \"/repo\"#path = \"{lane}/repo\"#' {lane}/verif/harness/Cargo.toml")
    if not os.path.exists(f"{lane}/verif/harness/target"):
        sh(f"cp -r /verif/harness/target {lane}/verif/harness/target")
def main():
    lanes = int(sys.argv[1])
    names = sys.argv[2:] or sorted(n for n in os.listdir("/verif/seeded") if os.path.exists(f"/verif/seeded/{n}/meta.json"))
    ts = [threading.Thread(target=sync, args=(i,)) for i in range(lanes)]
    [t.start() for t in ts]; [t.join() for t in ts]
    q = queue.Queue(); [q.put(n) for n in names]
    res = {}
    def worker(i):
        lane = f"{ROOT}/lane{i}"
        while True:
            try: n = q.get_nowait()
            except queue.Empty: return
            meta = json.load(open(f"/verif/seeded/{n}/meta.json"))
            p = meta["property"]
            code, out = sh(f"git apply /verif/seeded/{n}/patch.diff", cwd=f"{lane}/repo")
            if code != 0:
                res[n] = (p, "patch does not apply", 0, ""); continue
            t0 = time.time()
            code, out = sh(f"./check {p} quick 2>&1", cwd=f"{lane}/verif", timeout=3000)
            dt = int(time.time() - t0)
            sh("git checkout -q -- .", cwd=f"{lane}/repo"); sh("rm -f replays/*.json", cwd=f"{lane}/verif")
            first = next((l for l in out.splitlines() if "FAILED" in l), "")[:160].replace("|", "/")
            r = {1: "exit 1 (caught)", 0: "exit 0 (MISSED)"}.get(code, f"exit {code} (inconclusive)")
            res[n] = (p, r, dt, first)
            print(n, p, r, dt, flush=True)
    ts = [threading.Thread(target=worker, args=(i,)) for i in range(lanes)]
    [t.start() for t in ts]; [t.join() for t in ts]
    _, head = sh("git log --format=%h -1", cwd="/verif"); _, rh = sh("git log --format=%h -1", cwd="/repo")
    with open(os.environ.get("RERUN_OUT", "/verif/seeded/RERUN.md" if len(sys.argv) <= 2 else "/verif/seeded/RERUN-partial.md"), "w") as f:
        f.write(f"# Re-run of all kept seeded changes against the checks as committed ({head.strip()}, /repo {rh.strip()}), in scratch lanes\n\n| seed | property | quick check | seconds | first line |\n|---|---|---|---|---|\n")
        for n in names:
            p, r, dt, first = res.get(n, ("?", "not run", 0, ""))
            f.write(f"| {n} | {p} | {r} | {dt} | {first} |\n")
    print("caught", sum(1 for v in res.values() if "caught" in v[1]), "of", len(names))
main()
