#!/usr/bin/env python3
"""Sensitivity campaign (development tool, not a registered check).

Generates single-token mutants of the library source files the properties are anchored in, keeps
those that still compile and pass the repository's own 168 tests, and runs the quick checks of the
properties anchored in the mutated file against each of them. Works entirely in scratch lanes
(/scratch/mut/lane<i>/{repo,verif}: a clone of /repo and a copy of /verif whose harness depends on
the lane's clone); /repo and /verif are never touched.

usage: mutation_campaign.py setup <lanes>
       mutation_campaign.py run <lanes> <mutants-per-file> [file-substring ...]   -> /scratch/mut/results.jsonl
       mutation_campaign.py report
       mutation_campaign.py clean
"""
import json, os, random, re, subprocess, sys, time, hashlib
from concurrent.futures import ThreadPoolExecutor

ROOT = "/scratch/mut"
FILES = {
    "src/parse_dsym.rs": ["C01"],
    "src/dsets.rs": ["C01", "C02", "C03", "C04"],
    "src/dsyms.rs": ["C01", "C02", "C03", "C07"],
    "src/derived.rs": ["C03", "C04", "C05", "C08"],
    "src/covers.rs": ["C05", "C15"],
    "src/generators/dset_generators.rs": ["C06"],
    "src/util/backtrack.rs": ["C06", "C07"],
    "src/generators/dsym_generators.rs": ["C07"],
    "src/delaney2d.rs": ["C08", "C07", "C15", "C17"],
    "src/fundamental_group.rs": ["C09", "C16"],
    "src/fpgroups/free_words.rs": ["C10"],
    "src/fpgroups/cosets.rs": ["C11", "C12", "C13"],
    "src/fpgroups/stabilizer.rs": ["C13"],
    "src/fpgroups/invariants.rs": ["C14"],
    "src/delaney3d.rs": ["C15", "C17"],
    "src/simplify.rs": ["C16", "C17"],
    "src/util/cutsets.rs": ["C19", "C16"],
    "src/euclidicity.rs": ["C17"],
    "src/geometry/vec_matrix.rs": ["C18"],
    "src/geometry/matrix.rs": ["C18"],
    "src/geometry/traits.rs": ["C18"],
    "src/geometry/prime_residue_classes.rs": ["C18"],
    "src/geometry/modular_solver.rs": ["C18"],
    "src/pgraphs.rs": ["C18"],
    "src/util/partitions.rs": ["C20"],
}

OPERATORS = [
    (r" <= ", " < "), (r" < ", " <= "), (r" >= ", " > "), (r" > ", " >= "),
    (r" == ", " != "), (r" != ", " == "),
    (r" \+ 1\b", " + 2"), (r" - 1\b", " - 0"), (r" \+ 1\b", " + 0"),
    (r" \+ ", " - "), (r" - ", " + "), (r" \* ", " + "), (r" % ", " / "),
    (r" && ", " || "), (r" \|\| ", " && "),
    (r"\btrue\b", "false"), (r"\bfalse\b", "true"),
    (r"\.\.=", ".."), (r"\b0\.\.", "1.."), (r"\b1\.\.", "0.."),
    (r"\.min\(", ".max("), (r"\.max\(", ".min("),
    (r"\.any\(", ".all("), (r"\.all\(", ".any("),
    (r"\bcontinue;", ""), (r"\bbreak;", "continue;"),
    (r"\.rev\(\)", ""), (r"\.skip\(1\)", ""),
    (r"\[i\]", "[j]"), (r"\[j\]", "[i]"),
    (r"if !", "if "), (r"\bSome\((\w+)\)\s*=>", None),
]


def sh(cmd, cwd=None, timeout=None, env=None):
    try:
        r = subprocess.run(cmd, shell=True, cwd=cwd, capture_output=True, text=True, timeout=timeout, env=env)
        return r.returncode, r.stdout + r.stderr
    except subprocess.TimeoutExpired:
        return 124, "timeout"


def mutable_lines(text):
    lines = text.split("\n")
    out = []
    in_test = False
    for i, l in enumerate(lines):
        if l.startswith("#[cfg(test)]") or re.match(r"\s*mod tests?\s*\{", l) or l.strip() == "#[test]":
            in_test = True
        if in_test:
            continue
        s = l.strip()
        if not s or s.startswith("//") or s.startswith("assert") or s.startswith("debug_assert") or s.startswith("use ") or s.startswith("#["):
            continue
        if "cfg(odf_rust_dsymbols_verif)" in l or "verif_" in l:
            continue
        out.append(i)
    return lines, out


def gen_mutants(path, text, count, rng):
    lines, idx = mutable_lines(text)
    cands = []
    for i in idx:
        l = lines[i]
        code = l.split("//")[0]
        for (pat, rep) in OPERATORS:
            if rep is None:
                continue
            for m in re.finditer(pat, code):
                # keep generic brackets and arrows alone
                if pat in (r" < ", r" > ") and ("->" in code[max(0, m.start() - 2):m.end() + 1]):
                    continue
                new = code[:m.start()] + rep + code[m.end():] + l[len(code):]
                if new != l:
                    cands.append((i, pat, rep, new))
        # statement deletion
        s = l.strip()
        if s.endswith(";") and not s.startswith(("let ", "return", "pub ", "fn ", "}", "type ", "const ", "static ", "use ", ".", ")")):
            cands.append((i, "stmt", "deleted", l[: len(l) - len(l.lstrip())] + "/* deleted */"))
    rng.shuffle(cands)
    # at most 2 mutants per line, spread over the file
    per_line = {}
    out = []
    for c in cands:
        if per_line.get(c[0], 0) >= 2:
            continue
        per_line[c[0]] = per_line.get(c[0], 0) + 1
        out.append(c)
        if len(out) >= count:
            break
    return lines, out


def setup(lanes):
    os.makedirs(ROOT, exist_ok=True)
    for i in range(lanes):
        lane = f"{ROOT}/lane{i}"
        if os.path.exists(lane):
            continue
        os.makedirs(lane)
        sh(f"git clone -q /repo {lane}/repo")
        sh(f"rsync -a --exclude .git --exclude harness/target --exclude fuzz/target --exclude fuzz/corpus --exclude fuzz/artifacts --exclude 'replays/*.json' /verif/ {lane}/verif/")
        sh(f"sed -i 's#path = \"/repo\"#path = \"{lane}/repo\"#' {lane}/verif/harness/Cargo.toml")
        sh(f"cp -r /verif/harness/target {lane}/verif/harness/target")
        print("lane", i, "ready")
    # warm builds
    def warm(i):
        lane = f"{ROOT}/lane{i}"
        a = sh("cargo test --offline --lib 2>&1 | grep 'test result'", cwd=f"{lane}/repo", timeout=1200)
        b = sh("./check C20 quick | tail -1", cwd=f"{lane}/verif", timeout=1800)
        return (i, a[1].strip()[:80], b[1].strip()[:80])
    with ThreadPoolExecutor(lanes) as ex:
        for r in ex.map(warm, range(lanes)):
            print(r)


def run_one(lane_id, job):
    path, props, lineno, pat, rep, old, new = job
    lane = f"{ROOT}/lane{lane_id}"
    src = f"{lane}/repo/{path}"
    text = open(src, newline="").read()
    lines = text.split("\n")
    assert lines[lineno].rstrip("\r") == old.rstrip("\r"), "lane source out of sync"
    cr = "\r" if lines[lineno].endswith("\r") else ""
    lines[lineno] = new.rstrip("\r") + cr
    open(src, "w", newline="").write("\n".join(lines))
    rec = {"file": path, "line": lineno + 1, "op": f"{pat} -> {rep}", "old": old.strip(), "new": new.strip()}
    t0 = time.time()
    try:
        code, out = sh("cargo build --offline --lib 2>&1 | tail -3", cwd=f"{lane}/repo", timeout=600)
        if "error" in out:
            rec["status"] = "stillborn"
            return rec
        code, out = sh("timeout 300 cargo test --offline --lib 2>&1 | grep -E 'test result|error' | head -2", cwd=f"{lane}/repo", timeout=900)
        if "168 passed; 0 failed" not in out:
            rec["status"] = "killed-by-repo-tests"
            rec["detail"] = out.strip()[:160]
            return rec
        rec["status"] = "survived"
        rec["checks"] = {}
        for p in props:
            code, out = sh(f"./check {p} quick 2>&1 | grep -E '^(VIOLATION|INCONCLUSIVE)|FAILED' | head -4", cwd=f"{lane}/verif", timeout=2400)
            if "VIOLATION" in out or "FAILED" in out:
                rec["checks"][p] = "killed: " + out.strip()[:300]
                rec["status"] = "killed-by-check"
                break
            elif "INCONCLUSIVE" in out or code == 124:
                rec["checks"][p] = "inconclusive: " + out.strip()[:200]
            else:
                rec["checks"][p] = "ok"
        if rec["status"] == "survived" and any(v.startswith("inconclusive") for v in rec["checks"].values()):
            rec["status"] = "inconclusive"
        return rec
    finally:
        sh(f"git checkout -- .", cwd=f"{lane}/repo")
        sh("rm -f replays/*.json", cwd=f"{lane}/verif")
        rec["seconds"] = round(time.time() - t0)


def run(lanes, per_file, filters):
    rng = random.Random(20260926)
    jobs = []
    done = set()
    res_path = f"{ROOT}/results.jsonl"
    if os.path.exists(res_path):
        for l in open(res_path):
            r = json.loads(l)
            done.add((r["file"], r["line"], r["new"]))
    for path, props in FILES.items():
        if filters and not any(f in path for f in filters):
            continue
        text = open(f"/repo/{path}", newline="").read()
        lines, muts = gen_mutants(path, text, per_file, rng)
        for (i, pat, rep, new) in muts:
            if (path, i + 1, new.strip()) in done:
                continue
            jobs.append((path, props, i, pat, rep, lines[i], new))
    rng.shuffle(jobs)
    print(len(jobs), "mutants to run")
    import queue, threading
    q = queue.Queue()
    for j in jobs:
        q.put(j)
    lock = threading.Lock()
    def worker(lane_id):
        while True:
            try:
                j = q.get_nowait()
            except queue.Empty:
                return
            try:
                rec = run_one(lane_id, j)
            except Exception as e:
                rec = {"file": j[0], "line": j[2] + 1, "op": "?", "old": j[5].strip(), "new": j[6].strip(), "status": "error", "detail": str(e)[:200]}
            with lock:
                with open(res_path, "a") as f:
                    f.write(json.dumps(rec) + "\n")
                print(rec["status"], rec["file"], rec["line"], rec.get("op"), rec.get("seconds"), flush=True)
    ts = [threading.Thread(target=worker, args=(i,)) for i in range(lanes)]
    for t in ts:
        t.start()
    for t in ts:
        t.join()


def report():
    rows = [json.loads(l) for l in open(f"{ROOT}/results.jsonl")]
    by = {}
    for r in rows:
        by.setdefault(r["file"], {}).setdefault(r["status"], []).append(r)
    print("| file | mutants | stillborn | killed by the 168 tests | passing the tests | of those killed by quick checks | survived | inconclusive |")
    print("|---|---|---|---|---|---|---|---|")
    for f, d in sorted(by.items()):
        n = sum(len(v) for v in d.values())
        k = len(d.get("killed-by-check", []))
        s = len(d.get("survived", []))
        inc = len(d.get("inconclusive", []))
        print(f"| {f} | {n} | {len(d.get('stillborn', []))} | {len(d.get('killed-by-repo-tests', []))} | {k + s + inc} | {k} | {s} | {inc} |")
    print()
    def in_test_code(r):
        try:
            lines = open("/repo/" + r["file"]).read().split("\n")
        except Exception:
            return False
        return any(l.startswith("#[cfg(test)]") or re.match(r"\s*mod tests?\s*\{", l) or l.strip() == "#[test]" for l in lines[: r["line"]])
    for r in rows:
        if r["status"] in ("survived", "inconclusive", "error"):
            if in_test_code(r):
                continue
            print(f"{r['status'].upper()} {r['file']}:{r['line']}  [{r['op']}]\n    - {r['old']}\n    + {r['new']}\n    {r.get('checks', r.get('detail'))}")


if __name__ == "__main__":
    cmd = sys.argv[1]
    if cmd == "setup":
        setup(int(sys.argv[2]))
    elif cmd == "run":
        run(int(sys.argv[2]), int(sys.argv[3]), sys.argv[4:])
    elif cmd == "report":
        report()
    elif cmd == "clean":
        sh(f"rm -rf {ROOT}/lane*")
