#!/bin/bash
# usage: tools/seed_confirm.sh <name, e.g. C18h>
# confirms a seeded change in its scratch worktree /tmp/seedwt-<name> (never in /repo): the patch applies to a
# clean checkout, the 168 library tests pass with it, the demonstration fails with it and passes without it;
# then copies patch + demonstration + notes into /verif/seeded/<name>/ with eval.txt
name=$1
wt=/tmp/seedwt-$name; src=/tmp/seed-$name; dst=/verif/seeded/$name
[ -f $src/patch.diff ] && [ -f $src/seed_demo.rs ] || { echo "$name: deliverables missing"; exit 2; }
cd $wt || exit 2
git checkout -q -- . ; git clean -fdq -e target src tests 2>/dev/null
git apply $src/patch.diff || { echo "$name: patch does not apply to a clean checkout"; exit 2; }
mkdir -p tests; cp $src/seed_demo.rs tests/seed_demo.rs
a=$(cargo test --offline --lib 2>&1 | grep "test result" | head -1)
b=$(cargo test --offline --test seed_demo 2>&1 | grep "test result" | head -1)
git apply -R $src/patch.diff
c=$(cargo test --offline --test seed_demo 2>&1 | grep "test result" | head -1)
git apply $src/patch.diff
mkdir -p $dst
cp $src/patch.diff $src/seed_demo.rs $dst/; cp $src/notes.md $dst/agent_notes.md 2>/dev/null
printf "with change, library tests: %s\nwith change, demo: %s\nwithout change, demo: %s\n" "$a" "$b" "$c" > $dst/eval.txt
ok=yes
echo "$a" | grep -q "168 passed; 0 failed" || ok=no
echo "$b" | grep -q "FAILED" || ok=no
echo "$c" | grep -q "ok. 1 passed" || ok=no
echo "$name confirmed=$ok | $a | $b | $c"
