#!/usr/bin/env python3
"""usage: tools/seed_record_batch.py <batch.json> <first-run log> <final-run log> ...
batch.json: name -> [breaks, change, needs, outcome]; logs: output lines of seed_rerun_lanes.py
("<name> <prop> exit N (...) <seconds>"). Writes meta.json for every seed and appends a row to seeded/RESULTS.md."""
import json, sys, re, os
batch = json.load(open(sys.argv[1]))
runs = {}
for k, log in enumerate(sys.argv[2:]):
    for l in open(log):
        m = re.match(r"(\w+) (C\d\d) (exit \d \([^)]*\)) (\d+)", l)
        if m:
            runs.setdefault(m.group(1), []).append((k, m.group(3), m.group(4)))
added = json.load(open(sys.argv[1] + ".added")) if os.path.exists(sys.argv[1] + ".added") else {}
for name, (breaks, change, needs, outcome) in batch.items():
    d = f"/verif/seeded/{name}"
    prop = name[:3]
    ev = [l.rstrip() for l in open(f"{d}/eval.txt") if l.strip() and not l.startswith("check ")]
    rr = runs.get(name, [])
    first = rr[0][1] if rr else "not run"
    last = rr[-1][1] if rr else "not run"
    lines = ev + [f"check {prop} quick (checks as they stood when the change arrived): {rr[0][1]} {rr[0][2]}s"] if rr else ev
    if len(rr) > 1:
        lines.append(f"check {prop} quick (after strengthening): {rr[-1][1]} {rr[-1][2]}s")
    open(f"{d}/eval.txt", "w").write("\n".join(lines) + "\n")
    missed_first = "caught" not in first
    what = added.get(name, "")
    detected = f"./check {prop} quick" + (f" ({what})" if what else "")
    meta = {
        "property": prop, "breaks": breaks, "change": change, "needs": needs,
        "confirmed": "scratch worktree (tools/seed_confirm.sh): " + "; ".join(ev),
        "detected_by": detected, "ran": lines,
    }
    json.dump(meta, open(f"{d}/meta.json", "w"), indent=1)
    row = (f"missed by the first `./check {prop} quick` ({first}); caught after: {what}" if missed_first else f"caught by `./check {prop} quick`" + (f" ({what})" if what else ""))
    if "caught" not in last:
        row = f"NOT caught: {last}"
    with open("/verif/seeded/RESULTS.md", "a") as f:
        f.write(f"| {name} | {prop} | {needs} | {row} |\n")
    print(name, row[:100])
