#!/bin/bash
# development helper: run every check of a tier under the given seeds, one summary line each
# usage: tools/run_all.sh <quick|thorough> <seed> [<seed> ...]
tier=$1; shift
cd "$(dirname "$0")/.."
for seed in "$@"; do
  for p in C01 C02 C03 C04 C05 C06 C07 C08 C09 C10 C11 C12 C13 C14 C15 C16 C17 C18 C19 C20; do
    t0=$(date +%s)
    out=$(VERIF_SEED=$seed ./check $p $tier 2>&1); code=$?
    t1=$(date +%s)
    echo "seed=$seed $p $tier exit=$code $((t1-t0))s $(echo "$out" | grep -E '^(VIOLATION|INCONCLUSIVE|KNOWN-FINDING)' | head -3 | tr '\n' ' ')"
    if [ $code -ne 0 ]; then echo "$out" | grep -E "FAILED|HARNESS ERROR|note:" | head -5; fi
  done
done
