#![no_main]
use libfuzzer_sys::fuzz_target;

// the same oracle as the proptest sub-check; a violation becomes a crash whose artifact is
// converted into a replay file by `check`
fuzz_target!(|data: &[u8]| {
    if let Err(msg) = dsv::fuzz::c19_cuts(data) {
        panic!("VIOLATION {}", msg);
    }
});
